"""MIR->SMT obligations over vrp-pragmatic (executed together with the MIR of vrp-core: cross-crate calls switch engines).

C03: the per-activity step of the statistics fold inside `create_tour` (solution_writer.rs) - the closure that turns
(accumulated leg, next activity) into the next accumulated leg, and pushes the stop / activity records."""
import re
import time

import z3

import drivers
import layout as layout_mod
import mir
import symex
from core_obligations import Result, decide_claim, no_panic, witness, _ev_int, _ev_f, _func_table
from models import deref_all, mk_option
from smt import Decider
from symex import Agg, ArcV, BV, Cell, DynV, EnumV, FV, IV, Inconclusive, Opaque, RefV, StateV, UnitV, VecV, zs


class PCtx:
    """Program pair (vrp-pragmatic + vrp-core), merged layout, decider."""

    def __init__(self, fresh=True):
        self.core = mir.load('vrp-core', fresh=fresh)
        self.prog = mir.load('vrp-pragmatic', fresh=fresh)
        self.layout = layout_mod.Layout(['vrp-pragmatic', 'vrp-core'])
        self.decider = Decider()

    def engines(self, env):
        env.progs = [self.prog, self.core]
        e_p = symex.Engine(self.prog, self.layout, env)
        e_c = symex.Engine(self.core, self.layout, env)
        e_p.siblings = {'vrp_core': e_c}
        e_c.siblings = {'vrp_core': e_c, 'vrp_pragmatic': e_p}     # closures of the other crate are executed by its engine
        return e_p, e_c


def captures_by_name(fn):
    """closure environment: captured variable name -> field index, from the `debug name => (*((*_1).N: ..` lines."""
    out = {}
    for line in fn.raw:
        m = re.match(r'^\s*debug (\w+) => \(?\*?\(\(?\*?_1\)?\.(\d+):', line)
        if m:
            out[m.group(1)] = int(m.group(2))
    return out


ACTIVITY_KINDS = ('service', 'pickup', 'delivery', 'break', 'arrival')


def ob_writer_step(ctx, kind, dims=1):
    """C03: one step of the statistics fold of `create_tour` (real MIR of the closure, `calculate_load`, `get_capacity`,
    `format_schedule`; `MultiDimLoad` arithmetic, `Commute`, `TransportCost::cost`, `ActivityCost::cost` from the MIR of
    vrp-core) from an ARBITRARY accumulated leg (symbolic statistic, load, previous location and departure) and an
    arbitrary next activity of the given kind: the new statistic is the old one plus exactly the leg's distance, the time
    from the previous departure to this departure, driving = routing duration, serving = service time (break time for a
    break), waiting = max(window start - arrival, 0), cost = transport cost + serving cost + waiting cost (vehicle and driver
    rates); the load after the activity is the load before minus deliveries plus pickups (per dimension; an arrival starts
    from zero); the activity record carries the interval [max(arrival, window start), that + service time]; the running
    location / departure are those of the activity."""
    name = f'writer_step[{kind},dims={dims}]'
    res = Result(name)
    res.bounds = (f'one fold step from a symbolic accumulated leg; activity kind {kind}; {dims} load dimension(s), amounts in [0,2^14]; times/distances '
                  f'integer-valued in [0,2^16]; cost rates: symbolic integers in [0,2^8] (vehicle and driver); no commute (clustering), no parking; '
                  f'the previous stop is at another location or the same (both)')
    t0 = time.time()
    fn = ctx.prog.functions.get('create_tour::{closure#1}::{closure#2}')
    if fn is None or '_2: Leg' not in fn.header.replace('format::solution::solution_writer::', ''):
        cands = [f for n, f in ctx.prog.functions.items() if n.startswith('create_tour::') and re.search(r'_2: (?:[\w:]*::)?Leg, _3: &[\w:]*Activity\) -> (?:[\w:]*::)?Leg', f.header)]
        if len(cands) != 1:
            raise Inconclusive('the statistics step closure of create_tour was not found')
        fn = cands[0]
    caps = captures_by_name(fn)
    need = {'start', 'transport', 'route', 'vehicle', 'parking', 'problem', 'tour__stops', 'coord_index'}
    if set(caps) != need:
        raise Inconclusive(f'captures of the step closure changed: {sorted(caps)}')

    class Env(drivers.Env):
        def override(self, engine, st, callee, args, dest_ty):
            base = callee.split('::<')[0]
            if base.endswith('format_time'):
                return Agg('struct', [args[0]], 'FormattedTime')
            if base.endswith('CoordIndex::get_by_idx'):
                return mk_option(True, EnumV('format::Location', 1, {1: [args[1]]}), ty=dest_ty)      # Location::Reference { index }
            if base.endswith('get_job_tag'):
                return mk_option(False, ty=dest_ty)
            if base.endswith('from_elem'):
                n = args[1].concrete()
                if n is None:
                    raise Inconclusive('vec![x; n] with symbolic n')
                return VecV([symex.copy_value(args[0]) for _ in range(n)])
            return super().override(engine, st, callee, args, dest_ty)

        def default_of(self, engine, ty):
            base = re.sub(r'<.*$', '', ty).split('::')[-1]
            if base == 'Demand':
                z = lambda: mdl([0] * 8, 0)
                return self.struct('load::Demand', pickup=Agg('tuple', [z(), z()], ''), delivery=Agg('tuple', [z(), z()], ''))
            if base == 'Commute':
                info = lambda: self.struct('route::CommuteInfo', location=IV(0), distance=FV.const(0), duration=FV.const(0))
                return self.struct('route::Commute', forward=info(), backward=info())
            if base == 'MultiDimLoad':
                return mdl([0] * 8, 0)
            return super().default_of(engine, ty)

    env = Env(ctx.prog, ctx.layout, 16)
    env.allow_negative_matrix = False
    eng, _core_eng = ctx.engines(env)

    def mdl(vals, size):
        return env.struct('load::MultiDimLoad', load=Agg('array', [v if isinstance(v, IV) else IV(v, 'i32') for v in vals], '[i32; 8]'), size=IV(size))

    holder = {}

    def body(st):
        env.assumptions.clear()
        S = lambda n, hi=None: env.sym_f(n, 0, hi)
        I = lambda n, hi=2 ** 14: env.sym_i(n, 0, hi, 'i32')
        # accumulated leg
        stat = {k: env.sym_i('acc_' + k, 0, 2 ** 24, 'i64') for k in ('distance', 'duration', 'driving', 'serving', 'waiting', 'break_time', 'commuting', 'parking')}
        acc_cost = S('acc_cost', 2 ** 24)
        timing = env.struct('model::Timing', **{k: stat[k] for k in ('driving', 'serving', 'waiting', 'break_time', 'commuting', 'parking')})
        statistic = env.struct('model::Statistic', cost=acc_cost, distance=stat['distance'], duration=stat['duration'], times=timing)
        prev_loc = env.sym_i('prev_loc', 0, 1000)
        prev_dep = S('prev_dep')
        load_before = [I(f'load{d}', 2 ** 15) for d in range(dims)]
        leg = env.struct('solution_writer::Leg',
                         last_detail=mk_option(True, Agg('tuple', [prev_loc, prev_dep], ''), ty='Option<(usize, f64)>'),
                         load=mk_option(True, mdl(load_before + [IV(0, 'i32')] * (8 - dims), dims), ty='Option<MultiDimLoad>'),
                         statistic=statistic)
        # the activity
        loc = env.sym_i('loc', 0, 1000)
        dur, tws, twe = S('dur'), S('tws'), env.sym_f_or_max('twe')
        arr = S('arr')
        dep = S('dep')
        # the schedule is the one produced by update_route_schedule (C03 sched_state_stats): arrival = previous departure + routing
        # duration, departure = max(arrival, window start) + service time
        env.assumptions.append(arr.v == prev_dep.v + env.Dur(prev_loc.t, loc.t))
        env.assumptions.append(dep.v == z3.If(arr.v > tws.v, arr.v, tws.v) + dur.v)
        pick = [I(f'pick{d}') for d in range(dims)]
        deli = [I(f'deli{d}') for d in range(dims)]
        zero_l = lambda: mdl([0] * 8, 0)
        dimens = {}
        if kind != 'arrival':
            dimens['job_type'] = Opaque(f'"{kind}"')
            dimens['job_id'] = Opaque('"job1"')
        if kind == 'pickup':
            dimens['job_demand'] = env.struct('load::Demand', pickup=Agg('tuple', [mdl(pick + [IV(0, 'i32')] * (8 - dims), dims), zero_l()], ''), delivery=Agg('tuple', [zero_l(), zero_l()], ''))
        if kind == 'delivery':
            dimens['job_demand'] = env.struct('load::Demand', pickup=Agg('tuple', [zero_l(), zero_l()], ''), delivery=Agg('tuple', [mdl(deli + [IV(0, 'i32')] * (8 - dims), dims), zero_l()], ''))
        single = ArcV(Cell(env.struct('jobs::Single', places=VecV([]), dimens=StateV(dimens))))
        act = env.activity(loc, dur, tws, twe, arr, dep, has_job=(kind != 'arrival'), job=single if kind != 'arrival' else None)
        # environment of the closure
        vc = {k: env.sym_f('v_' + k, 0, 2 ** 8) for k in ('fixed', 'per_distance', 'per_driving_time', 'per_waiting_time', 'per_service_time')}
        dc = {k: env.sym_f('d_' + k, 0, 2 ** 8) for k in ('fixed', 'per_distance', 'per_driving_time', 'per_waiting_time', 'per_service_time')}
        actor = env.actor(IV(0), FV.const(0), IV(0), FV.const(100000), vehicle_costs=env.costs(**vc), driver_costs=env.costs(**dc))
        start = env.activity(IV(0), FV.const(0), FV.const(0), FV.max_value(), FV.const(0), FV.const(0), has_job=False)
        route = env.struct('route::Route', actor=actor, tour=Opaque('tour'))
        po = ctx.layout.fields('domain::Problem')
        problem = Agg('struct', [ArcV(Cell(DynV('activity'))) if f == 'activity' else Opaque(f) for f in po], 'domain::Problem')
        # the stop the previous activity belongs to
        prev_stop = EnumV('model::Stop', 0, {0: [env.struct('model::PointStop', location=EnumV('format::Location', 1, {1: [prev_loc]}),
                                                            time=env.struct('model::Schedule', arrival=Opaque('"t0"'), departure=Opaque('"t1"')),
                                                            distance=stat['distance'], load=VecV([]), parking=mk_option(False, ty='Option<Interval>'),
                                                            activities=VecV([Opaque('previous activity')]))]})
        stops = VecV([prev_stop])
        vehicle = actor.cell.v.fields[ctx.layout.fields('fleet::Actor').index('vehicle')]
        cap = [None] * 8
        cap[caps['start']] = RefV(Cell(start), 0)
        cap[caps['transport']] = env.dyn_transport()
        cap[caps['route']] = RefV(Cell(route), 0)
        cap[caps['vehicle']] = RefV(vehicle.cell, 0)
        cap[caps['parking']] = RefV(Cell(FV.const(0)), 0)
        cap[caps['problem']] = RefV(Cell(problem), 0)
        cap[caps['tour__stops']] = RefV(Cell(stops), 0, True)
        cap[caps['coord_index']] = RefV(Cell(Opaque('coord_index')), 0)
        closure = Agg('closure', cap, 'step', fn_name='step')
        holder.update(stat=stat, acc_cost=acc_cost, prev_loc=prev_loc, prev_dep=prev_dep, load_before=load_before, loc=loc, dur=dur, tws=tws, twe=twe,
                      arr=arr, dep=dep, pick=pick, deli=deli, vc=vc, dc=dc, stops=stops)
        out = eng.exec_fn(st, fn, [RefV(Cell(closure), 0, True), leg, RefV(Cell(act), 0)])
        st.user_stops = stops
        return out

    paths = eng.explore(body, max_paths=4000)
    res.paths = len(paths)
    res.functions |= eng.functions_used
    saw = set()
    for st, out in paths:
        h = holder
        dur_leg = env.Dur(h['prev_loc'].t, h['loc'].t)
        dist_leg = env.Dist(h['prev_loc'].t, h['loc'].t)
        dom = [z3.And(dur_leg >= 0, dur_leg <= env.bound, dist_leg >= 0, dist_leg <= env.bound)]
        if out is None:
            if not no_panic(ctx, res, env, st, dom, what=name):
                break
            continue
        F = lambda agg, ty, f: env.field(agg, ty, f)
        stat_o = F(out, 'solution_writer::Leg', 'statistic')
        times_o = F(stat_o, 'model::Statistic', 'times')
        waiting = z3.If(h['tws'].v > h['arr'].v, h['tws'].v - h['arr'].v, 0)
        is_break = kind == 'break'
        vc, dc = h['vc'], h['dc']
        service_rate = lambda c: c['per_service_time'].v
        transport_cost = (vc['per_distance'].v + dc['per_distance'].v) * dist_leg + (vc['per_driving_time'].v + dc['per_driving_time'].v) * dur_leg
        serving_cost = (service_rate(vc) + service_rate(dc)) * h['dur'].v
        waiting_cost = vc['per_waiting_time'].v * waiting
        claims = [
            F(stat_o, 'model::Statistic', 'distance').t == h['stat']['distance'].t + dist_leg,
            F(stat_o, 'model::Statistic', 'duration').t == h['stat']['duration'].t + h['dep'].v - h['prev_dep'].v,
            F(times_o, 'model::Timing', 'driving').t == h['stat']['driving'].t + dur_leg,
            F(times_o, 'model::Timing', 'serving').t == h['stat']['serving'].t + (0 if is_break else h['dur'].v),
            F(times_o, 'model::Timing', 'break_time').t == h['stat']['break_time'].t + (h['dur'].v if is_break else 0),
            F(times_o, 'model::Timing', 'waiting').t == h['stat']['waiting'].t + waiting,
            F(times_o, 'model::Timing', 'commuting').t == h['stat']['commuting'].t,
            F(times_o, 'model::Timing', 'parking').t == h['stat']['parking'].t,
            z3.Not(F(stat_o, 'model::Statistic', 'cost').m),
            F(stat_o, 'model::Statistic', 'cost').v == h['acc_cost'].v + transport_cost + serving_cost + waiting_cost,
        ]
        # running location / departure
        last = F(out, 'solution_writer::Leg', 'last_detail')
        tup = last.payload[1][0]
        claims += [last.discr == 1, tup.fields[0].t == h['loc'].t, tup.fields[1].v == h['dep'].v]
        # load after the activity
        load_o = F(out, 'solution_writer::Leg', 'load').payload[1][0]
        arr_o = F(load_o, 'load::MultiDimLoad', 'load').fields
        for d in range(dims):
            before = h['load_before'][d].t if kind != 'arrival' else 0
            claims.append(arr_o[d].t == before + (h['pick'][d].t if kind == 'pickup' else 0) - (h['deli'][d].t if kind == 'delivery' else 0))
        # records: the activity lands on the last stop, with its service interval; a new stop iff the location changed
        stops = st.user_stops.items
        same_loc = h['prev_loc'].t == h['loc'].t
        if len(stops) not in (1, 2):
            res.status, res.detail = 'violated', f'{name}: {len(stops)} stops after one step'
            break
        claims.append(z3.BoolVal(len(stops) == 1) == same_loc)
        point = stops[-1].payload[0][0]
        acts = F(point, 'model::PointStop', 'activities').items
        rec = acts[-1]
        interval = F(rec, 'model::Activity', 'time').payload[1][0]
        start_t = F(interval, 'model::Interval', 'start').fields[0]
        end_t = F(interval, 'model::Interval', 'end').fields[0]
        service_start = z3.If(h['arr'].v > h['tws'].v, h['arr'].v, h['tws'].v)
        claims += [start_t.v == service_start, end_t.v == service_start + h['dur'].v]
        dep_rec = F(F(point, 'model::PointStop', 'time'), 'model::Schedule', 'departure').fields[0]
        claims.append(dep_rec.v == h['dep'].v)
        if len(stops) == 2:
            claims.append(F(point, 'model::PointStop', 'distance').t == h['stat']['distance'].t + dist_leg)
        type_rec = F(rec, 'model::Activity', 'activity_type')
        if not (isinstance(type_rec, Opaque) and type_rec.name == f'"{kind}"'):
            res.status, res.detail = 'violated', f'{name}: activity recorded with type {type_rec!r}'
            break
        if not decide_claim(ctx, res, env, st, z3.And(*claims), dom, what=f'{name}: statistic, load and records after the step == reference'):
            if res.status == 'violated' and res.model is not None:
                m = res.model
                ev = lambda x: _ev_int(m, x)
                dur_t, dur_d = _func_table(m, env.Dur)
                dist_t, dist_d = _func_table(m, env.Dist)
                res.case = {'kind': 'writer_step', 'activity_kind': kind, 'dims': dims,
                            'prev_loc': ev(h['prev_loc'].t), 'loc': ev(h['loc'].t), 'prev_dep': ev(h['prev_dep'].v),
                            'dur': ev(h['dur'].v), 'tws': ev(h['tws'].v), 'twe': _ev_f(m, h['twe']), 'arr': ev(h['arr'].v),
                            'pick': [ev(x.t) for x in h['pick']], 'deli': [ev(x.t) for x in h['deli']],
                            'vehicle_costs': {k: ev(v.v) for k, v in vc.items()}, 'driver_costs': {k: ev(v.v) for k, v in dc.items()},
                            'leg_dur': ev(dur_leg), 'leg_dist': ev(dist_leg)}
            break
        if not no_panic(ctx, res, env, st, dom, what=name):
            break
        if witness(ctx, res, env, st, same_loc, dom):
            saw.add('same stop')
        if witness(ctx, res, env, st, z3.And(z3.Not(same_loc), waiting > 0), dom):
            saw.add('new stop with waiting')
    if res.status == 'holds':
        res.witnesses = len(saw)
        if len(saw) < 2:
            res.status, res.detail = 'inconclusive', f'vacuous: {saw}'
    res.time = time.time() - t0
    return res


def ob_writer_tour(ctx, kinds, dims=1, rates=(7, 3, 2, 5, 4), closed=True, time_aware=False):
    """C03: the complete `create_tour` (real MIR: interval fold, departure stop, statistics fold, final clean-up pass) on a
    closed tour whose job activities have the given kinds, with the schedule of the forward simulation: the reported
    per-tour statistic equals the recomputation from routing data, vehicle costs and the visiting order (distance, duration,
    driving / serving / waiting / break split, cost incl. the fixed cost); every stop reports the cumulative distance and
    the load on board after it (initial load = sum of static deliveries, then -delivery +pickup per activity; the
    arrival at the end reports what is left = the static pickups)."""
    k = len(kinds)
    name = f'writer_tour[{",".join(kinds) or "empty"},dims={dims},rates={"/".join(map(str, rates))}{"" if closed else ",open"}{",time-dependent routing" if time_aware else ""}]'
    res = Result(name)
    res.bounds = (f'{"closed" if closed else "open"} tour start + {k} job activities ({", ".join(kinds)}){" + end" if closed else ""}, all at pairwise different locations; {dims} load dimension(s), amounts in '
                  f'[0,2^14]; times/distances integer-valued in [0,2^16]; cost rates (fixed, distance, driving, waiting, service) = {rates}; no reloads, breaks only as job kind, '
                  f'no clustering (commute/parking), no reserved times')
    t0 = time.time()
    fn = ctx.prog.find_free('create_tour')

    class Env(drivers.Env):
        def override(self, engine, st, callee, args, dest_ty):
            base = callee.split('::<')[0]
            if base.endswith('format_time'):
                return Agg('struct', [args[0]], 'FormattedTime')
            if base.endswith('CoordIndex::get_by_idx'):
                return mk_option(True, EnumV('format::Location', 1, {1: [args[1]]}), ty=dest_ty)      # Location::Reference { index }
            if base.endswith('CoordIndex::get_by_loc'):
                return mk_option(True, deref_all(args[1]).payload[1][0], ty=dest_ty)
            if base.endswith('get_job_tag'):
                return mk_option(False, ty=dest_ty)
            if base.endswith('get_parking_time'):
                return FV.const(0)
            if base.endswith('insert_reserved_times_as_breaks'):
                return UnitV()
            if base.endswith('from_elem'):
                n = args[1].concrete()
                if n is None:
                    raise Inconclusive('vec![x; n] with symbolic n')
                return VecV([symex.copy_value(args[0]) for _ in range(n)])
            return super().override(engine, st, callee, args, dest_ty)

        def default_of(self, engine, ty):
            base = re.sub(r'<.*$', '', ty).split('::')[-1]
            if base == 'Demand':
                z = lambda: mdl([0] * 8, 0)
                return self.struct('load::Demand', pickup=Agg('tuple', [z(), z()], ''), delivery=Agg('tuple', [z(), z()], ''))
            if base == 'Commute':
                info = lambda: self.struct('route::CommuteInfo', location=IV(0), distance=FV.const(0), duration=FV.const(0))
                return self.struct('route::Commute', forward=info(), backward=info())
            if base == 'MultiDimLoad':
                return mdl([0] * 8, 0)
            if base == 'Statistic':
                z = lambda: IV(0, 'i64')
                return self.struct('model::Statistic', cost=FV.const(0), distance=z(), duration=z(),
                                   times=self.struct('model::Timing', driving=z(), serving=z(), waiting=z(), break_time=z(), commuting=z(), parking=z()))
            return super().default_of(engine, ty)

    env = Env(ctx.prog, ctx.layout, 16)
    env.time_aware = time_aware
    eng, _ = ctx.engines(env)

    def mdl(vals, size):
        return env.struct('load::MultiDimLoad', load=Agg('array', [v if isinstance(v, IV) else IV(v, 'i32') for v in vals], '[i32; 8]'), size=IV(size))

    holder = {}

    def body(st):
        env.assumptions.clear()
        holder.pop('dyn', None)
        S = lambda n, hi=None: env.sym_f(n, 0, hi)
        I = lambda n, hi=2 ** 14: env.sym_i(n, 0, hi, 'i32')
        zero_l = lambda: mdl([0] * 8, 0)
        locs = [env.sym_i(f'loc{i}', 0, 1000) for i in range(k + 2)]
        for i in range(k + 2):
            for j in range(i + 1, k + 2):
                env.assumptions.append(locs[i].t != locs[j].t)
        dep0 = S('dep0')
        nodes = [{'loc': locs[0], 'dur': FV.const(0), 'tws': FV.const(0), 'arr': dep0, 'dep': dep0}]
        acts = [env.activity(locs[0], FV.const(0), FV.const(0), FV.max_value(), dep0, dep0, has_job=False)]
        demands = []
        for i, kind in enumerate(kinds, start=1):
            dur, tws, arr, dep = S(f'dur{i}'), S(f'tws{i}'), S(f'arr{i}'), S(f'dep{i}')
            prev = nodes[-1]
            env.assumptions.append(arr.v == prev['dep'].v + env.dur_at(prev['loc'].t, locs[i].t, prev['dep'].v))
            env.assumptions.append(dep.v == z3.If(arr.v > tws.v, arr.v, tws.v) + dur.v)
            pick = [I(f'pick{i}_{d}') for d in range(dims)]
            deli = [I(f'deli{i}_{d}') for d in range(dims)]
            dimens = {'job_type': Opaque('"%s"' % {'dpickup': 'pickup', 'ddelivery': 'delivery'}.get(kind, kind)), 'job_id': Opaque(f'"job{i}"')}
            pad = [IV(0, 'i32')] * (8 - dims)
            if kind in ('dpickup', 'ddelivery'):
                # the two tasks of ONE shipment: the same symbolic amounts, carried as the dynamic part of the demand
                if 'dyn' not in holder:
                    holder['dyn'] = [I(f'dyn_{d}') for d in range(dims)]
                dyn = holder['dyn']
                pick = dyn if kind == 'dpickup' else pick
                deli = dyn if kind == 'ddelivery' else deli
                if kind == 'dpickup':
                    dimens['job_demand'] = env.struct('load::Demand', pickup=Agg('tuple', [zero_l(), mdl(list(dyn) + pad, dims)], ''), delivery=Agg('tuple', [zero_l(), zero_l()], ''))
                else:
                    dimens['job_demand'] = env.struct('load::Demand', pickup=Agg('tuple', [zero_l(), zero_l()], ''), delivery=Agg('tuple', [zero_l(), mdl(list(dyn) + pad, dims)], ''))
            if kind == 'pickup':
                dimens['job_demand'] = env.struct('load::Demand', pickup=Agg('tuple', [mdl(pick + pad, dims), zero_l()], ''), delivery=Agg('tuple', [zero_l(), zero_l()], ''))
            if kind == 'delivery':
                dimens['job_demand'] = env.struct('load::Demand', pickup=Agg('tuple', [zero_l(), zero_l()], ''), delivery=Agg('tuple', [mdl(deli + pad, dims), zero_l()], ''))
            demands.append((kind, pick, deli))
            single = ArcV(Cell(env.struct('jobs::Single', places=VecV([]), dimens=StateV(dimens))))
            acts.append(env.activity(locs[i], dur, tws, FV.max_value(), arr, dep, job=single))
            nodes.append({'loc': locs[i], 'dur': dur, 'tws': tws, 'arr': arr, 'dep': dep, 'kind': kind})
        if closed:
            arr_e = S('arr_end')
            prev = nodes[-1]
            env.assumptions.append(arr_e.v == prev['dep'].v + env.dur_at(prev['loc'].t, locs[k + 1].t, prev['dep'].v))
            acts.append(env.activity(locs[k + 1], FV.const(0), FV.const(0), FV.max_value(), arr_e, arr_e, has_job=False))
            nodes.append({'loc': locs[k + 1], 'dur': FV.const(0), 'tws': FV.const(0), 'arr': arr_e, 'dep': arr_e, 'kind': 'arrival'})
        # concrete, pairwise different rates (the cost is linear in the rates; symbolic rates x symbolic sums is non-linear)
        vc = {key: FV.const(r) for key, r in zip(('fixed', 'per_distance', 'per_driving_time', 'per_waiting_time', 'per_service_time'), rates)}
        zero_costs = {key: FV.const(0) for key in vc}      # the pragmatic format has no driver costs
        vdim = StateV({'vehicle_id': Opaque('"v1"'), 'vehicle_type': Opaque('"type1"'), 'shift_index': IV(0)})
        actor = env.actor(locs[0], FV.const(0), locs[k + 1] if closed else None, FV.const(100000) if closed else FV.max_value(), vehicle_costs=env.costs(**vc),
                          driver_costs=env.costs(**zero_costs), dimens=vdim)
        tour = env.struct('solution::tour::Tour', activities=VecV(acts), jobs=symex.SetV(k), is_closed=BV(closed))
        route = env.struct('route::Route', actor=actor, tour=tour)
        po = ctx.layout.fields('domain::Problem')
        problem = Agg('struct', [ArcV(Cell(DynV('activity'))) if f == 'activity' else ArcV(Cell(DynV('transport'))) if f == 'transport'
                                 else ArcV(Cell(Opaque('extras'))) if f == 'extras' else Opaque(f) for f in po], 'domain::Problem')
        holder.update(nodes=nodes, demands=demands, vc=vc)
        return eng.exec_fn(st, fn, [RefV(Cell(problem), 0), RefV(Cell(route), 0), RefV(Cell(Opaque('coord_index')), 0), RefV(Cell(Opaque('reserved')), 0)])

    paths = eng.explore(body, max_paths=6000)
    res.paths = len(paths)
    res.functions |= eng.functions_used
    saw = 0
    for st, out in paths:
        nodes, demands, vc = holder['nodes'], holder['demands'], holder['vc']
        legs = [(env.dur_at(a['loc'].t, b['loc'].t, a['dep'].v), env.dist_at(a['loc'].t, b['loc'].t, a['dep'].v)) for a, b in zip(nodes, nodes[1:])]
        dom = [z3.And(d >= 0, d <= env.bound, s >= 0, s <= env.bound) for d, s in legs]
        if out is None:
            if not no_panic(ctx, res, env, st, dom, what=name):
                break
            continue
        F = lambda agg, ty, f: env.field(agg, ty, f)
        stat = F(out, 'model::Tour', 'statistic')
        times = F(stat, 'model::Statistic', 'times')
        waits = [z3.If(n['tws'].v > n['arr'].v, n['tws'].v - n['arr'].v, 0) for n in nodes[1:]]
        serving = sum([n['dur'].v for n in nodes[1:] if n.get('kind') != 'break'], z3.IntVal(0))
        breaks = sum([n['dur'].v for n in nodes[1:] if n.get('kind') == 'break'], z3.IntVal(0))
        total_dist = sum([s for _, s in legs], z3.IntVal(0))
        total_drive = sum([d for d, _ in legs], z3.IntVal(0))
        cost = (vc['fixed'].v + vc['per_distance'].v * total_dist + vc['per_driving_time'].v * total_drive
                + vc['per_service_time'].v * (serving + breaks) + vc['per_waiting_time'].v * sum(waits, z3.IntVal(0)))
        claims = [
            F(stat, 'model::Statistic', 'distance').t == total_dist,
            F(stat, 'model::Statistic', 'duration').t == nodes[-1]['dep'].v - nodes[0]['dep'].v,
            F(times, 'model::Timing', 'driving').t == total_drive,
            F(times, 'model::Timing', 'serving').t == serving,
            F(times, 'model::Timing', 'break_time').t == breaks,
            F(times, 'model::Timing', 'waiting').t == sum(waits, z3.IntVal(0)),
            F(times, 'model::Timing', 'commuting').t == 0, F(times, 'model::Timing', 'parking').t == 0,
            z3.Not(F(stat, 'model::Statistic', 'cost').m), F(stat, 'model::Statistic', 'cost').v == cost,
            # duration = driving + serving + break + waiting (the split is complete)
            F(stat, 'model::Statistic', 'duration').t == total_drive + serving + breaks + sum(waits, z3.IntVal(0)),
        ]
        stops = F(out, 'model::Tour', 'stops').items
        if len(stops) != len(nodes):
            res.status, res.detail = 'violated', f'{name}: {len(stops)} stops for {len(nodes)} pairwise different locations'
            break
        # loads: initial = sum of static deliveries; then per activity; distances cumulative
        # reload intervals: static deliveries of an interval come on board at its start (depot / reload), static pickups leave at its end
        bounds_ = [i for i, (kind, _, _) in enumerate(demands) if kind == 'reload']
        segs = []
        lo_ = 0
        for b_ in bounds_ + [len(demands)]:
            segs.append((lo_, b_))
            lo_ = b_
        seg_of = lambda i: next(sg for sg in segs if sg[0] <= i < sg[1])
        for d in range(dims):
            cur = sum([deli[d].t for kind, _, deli in demands[segs[0][0]:segs[0][1]] if kind == 'delivery'], z3.IntVal(0))
            cum = z3.IntVal(0)
            for si, stop in enumerate(stops):
                point = stop.payload[0][0]
                if si > 0:
                    cum = cum + legs[si - 1][1]
                    if si <= k:
                        kind, pick, deli = demands[si - 1]
                        if kind == 'reload':
                            prev_seg = seg_of(si - 2) if si >= 2 else (0, 0)
                            next_seg = seg_of(si - 1)
                            cur = (cur - sum([pk[d].t for kd, pk, _ in demands[prev_seg[0]:prev_seg[1]] if kd == 'pickup'], z3.IntVal(0))
                                   + sum([dl[d].t for kd, _, dl in demands[next_seg[0]:next_seg[1]] if kd == 'delivery'], z3.IntVal(0)))
                        cur = cur + (pick[d].t if kind in ('pickup', 'dpickup') else 0) - (deli[d].t if kind in ('delivery', 'ddelivery') else 0)
                load = F(point, 'model::PointStop', 'load').items
                # a load without dimensions is written as [0]: a missing dimension reads as zero
                rep = load[d].t if len(load) > d else z3.IntVal(0)
                if closed and si == k + 1:
                    # arrival: the code reports zero minus nothing for the arrival itself (static pickups are dropped at the end)
                    claims.append(rep == 0)
                else:
                    claims.append(rep == cur)
                if d == 0:
                    claims.append(F(point, 'model::PointStop', 'distance').t == cum)
                    tm = F(point, 'model::PointStop', 'time')
                    claims.append(F(tm, 'model::Schedule', 'arrival').fields[0].v == nodes[si]['arr'].v)
                    claims.append(F(tm, 'model::Schedule', 'departure').fields[0].v == nodes[si]['dep'].v)
        if res.status != 'holds':
            break
        if not decide_claim(ctx, res, env, st, z3.And(*claims), dom, what=f'{name}: reported statistic, loads, distances, times == recomputation'):
            if res.status == 'violated' and res.model is not None and kinds.count('break') <= 1 and kinds.count('reload') <= 1 and rates[2] == rates[3] == rates[4]:
                res.case = writer_case(res.model, env, nodes, demands, rates, dims, closed)
            break
        if not no_panic(ctx, res, env, st, dom, what=name):
            break
        saw += int(witness(ctx, res, env, st, z3.And(*[w > 0 for w in waits[:1]]) if k else z3.BoolVal(True), dom))
    if res.status == 'holds':
        res.witnesses = saw
        if saw == 0:
            res.status, res.detail = 'inconclusive', 'vacuous'
    res.time = time.time() - t0
    return res


def rfc3339(t):
    import datetime
    return datetime.datetime.fromtimestamp(int(t), datetime.timezone.utc).strftime('%Y-%m-%dT%H:%M:%SZ')


def writer_case(m, env, nodes, demands, rates, dims, closed=True):
    """Pragmatic problem + matrix JSON (index locations = position in the tour) and the visiting order, from a solver model."""
    ev = lambda t: m.eval(t, model_completion=True).as_long()
    n = len(nodes)
    far = rfc3339(30 * 86400)
    dur = [[0 if i == j else ev(env.Dur(nodes[i]['loc'].t, nodes[j]['loc'].t)) for j in range(n)] for i in range(n)]
    dist = [[0 if i == j else ev(env.Dist(nodes[i]['loc'].t, nodes[j]['loc'].t)) for j in range(n)] for i in range(n)]
    jobs, order, ref = [], [], []
    breaks, reloads = [], []
    shipment = {}
    for i, (node, (kind, pick, deli)) in enumerate(zip(nodes[1:-1] if closed else nodes[1:], demands), start=1):
        if kind == 'reload':
            reloads.append({'location': {'index': i}, 'duration': float(ev(node['dur'].v)), 'times': [[rfc3339(ev(node['tws'].v)), far]]})
            order.append('reload')
            ref.append({'kind': 'reload', 'dur': ev(node['dur'].v), 'tws': ev(node['tws'].v), 'amounts': [0] * dims})
            continue
        if kind == 'break':
            # a vehicle break with its own location: becomes the conditional job of type "break"
            breaks.append({'time': [rfc3339(ev(node['tws'].v)), far], 'places': [{'duration': float(ev(node['dur'].v)), 'location': {'index': i}}]})
            order.append('break')
            ref.append({'kind': 'break', 'dur': ev(node['dur'].v), 'tws': ev(node['tws'].v), 'amounts': [0] * dims})
            continue
        task = {'places': [{'location': {'index': i}, 'duration': float(ev(node['dur'].v)), 'times': [[rfc3339(ev(node['tws'].v)), far]]}]}
        if kind in ('dpickup', 'ddelivery'):
            amounts = [ev(x.t) for x in (pick if kind == 'dpickup' else deli)]
            task['demand'] = amounts
            shipment.setdefault('id', 'dyn')
            shipment['pickups' if kind == 'dpickup' else 'deliveries'] = [task]
            order.append('dyn#0' if kind == 'dpickup' else 'dyn#1')
            ref.append({'kind': kind, 'dur': ev(node['dur'].v), 'tws': ev(node['tws'].v), 'amounts': amounts})
            continue
        amounts = [ev(x.t) for x in (pick if kind == 'pickup' else deli)]
        if kind in ('pickup', 'delivery'):
            task['demand'] = amounts
        key = {'pickup': 'pickups', 'delivery': 'deliveries', 'service': 'services'}[kind]
        jobs.append({'id': f'job{i}', key: [task]})
        order.append(f'job{i}')
        ref.append({'kind': kind, 'dur': ev(node['dur'].v), 'tws': ev(node['tws'].v), 'amounts': amounts})
    dep0 = ev(nodes[0]['dep'].v)
    if shipment:
        jobs.append(shipment)
    problem = {'plan': {'jobs': jobs},
               'fleet': {'vehicles': [{'typeId': 'type1', 'vehicleIds': ['v1'], 'profile': {'matrix': 'car'},
                                       'costs': {'fixed': float(rates[0]), 'distance': float(rates[1]), 'time': float(rates[2])},
                                       'shifts': [dict(dict({'start': {'earliest': rfc3339(dep0), 'location': {'index': 0}}},
                                                             **({'end': {'latest': far, 'location': {'index': n - 1}}} if closed else {})), **dict({'breaks': breaks} if breaks else {}, **({'reloads': reloads} if reloads else {})))],
                                       'capacity': [1000000] * dims}],
                         'profiles': [{'name': 'car'}]}}
    matrix = {'profile': 'car', 'travelTimes': [x for row in dur for x in row], 'distances': [x for row in dist for x in row]}
    case = {'kind': 'writer_tour', 'problem': problem, 'matrix': matrix, 'order': order, 'dep0': dep0, 'jobs_ref': ref, 'dur': dur, 'dist': dist,
            'rates': list(rates), 'dims': dims, 'closed': closed}
    if env.time_aware:
        # one matrix per time at which the tour (or a changed look-up) can ask: every arrival and departure of the model
        times = sorted({ev(nd[key].v) for nd in nodes for key in ('arr', 'dep')})
        clamp = lambda v: max(0, min(v, env.bound))
        tables = {}
        for t in times:
            tv = z3.IntVal(t)
            tables[str(t)] = {
                'dur': [[0 if i == j else clamp(ev(env.DurT(nodes[i]['loc'].t, nodes[j]['loc'].t, tv))) for j in range(n)] for i in range(n)],
                'dist': [[0 if i == j else clamp(ev(env.DistT(nodes[i]['loc'].t, nodes[j]['loc'].t, tv))) for j in range(n)] for i in range(n)]}
        case['matrices'] = [{'profile': 'car', 'timestamp': rfc3339(t), 'travelTimes': [x for row in tables[str(t)]['dur'] for x in row],
                             'distances': [x for row in tables[str(t)]['dist'] for x in row]} for t in times]
        case['tables'] = tables
        case['table_times'] = times
    return case


def ob_statistic_sum(ctx):
    """C03: "the overall statistic is the sum of the tours": the fold step of `create_solution` is `acc + tour.statistic`
    with `<Statistic as Add>::add` (real MIR): every component of the result is the sum of the two components."""
    name = 'statistic_sum'
    res = Result(name)
    res.bounds = 'two symbolic statistics (all components integer-valued in [0,2^24])'
    t0 = time.time()
    fns = ctx.prog.find_method('Statistic', 'add', trait='Add')
    if len(fns) != 1:
        raise Inconclusive('<Statistic as Add>::add not found')
    env = drivers.Env(ctx.prog, ctx.layout, 24)
    eng, _ = ctx.engines(env)
    keys = ('driving', 'serving', 'waiting', 'break_time', 'commuting', 'parking')
    holder = {}

    def body(st):
        env.assumptions.clear()
        def stat(p):
            t = {k: env.sym_i(f'{p}_{k}', 0, 2 ** 24, 'i64') for k in keys + ('distance', 'duration')}
            c = env.sym_f(f'{p}_cost', 0, 2 ** 24)
            holder[p] = (t, c)
            return env.struct('model::Statistic', cost=c, distance=t['distance'], duration=t['duration'], times=env.struct('model::Timing', **{k: t[k] for k in keys}))
        return eng.exec_fn(st, fns[0], [stat('a'), stat('b')])

    paths = eng.explore(body)
    res.paths = len(paths)
    res.functions |= eng.functions_used
    for st, out in paths:
        if out is None:
            if not no_panic(ctx, res, env, st, what=name):
                break
            continue
        (ta, ca), (tb, cb) = holder['a'], holder['b']
        F = env.field
        times = F(out, 'model::Statistic', 'times')
        claims = [F(out, 'model::Statistic', 'cost').v == ca.v + cb.v, F(out, 'model::Statistic', 'distance').t == ta['distance'].t + tb['distance'].t,
                  F(out, 'model::Statistic', 'duration').t == ta['duration'].t + tb['duration'].t]
        claims += [F(times, 'model::Timing', k).t == ta[k].t + tb[k].t for k in keys]
        if not decide_claim(ctx, res, env, st, z3.And(*claims), what=f'{name}: component-wise sum'):
            if res.status == 'violated' and res.model is not None:
                m = res.model
                ev = lambda t: m.eval(t, model_completion=True).as_long()
                doc = lambda t, c: dict({k: ev(v.t) for k, v in t.items()}, cost=float(ev(c.v)))
                res.case = {'kind': 'statistic_sum', 'a': doc(ta, ca), 'b': doc(tb, cb)}
            break
        if not no_panic(ctx, res, env, st, what=name):
            break
        res.witnesses += int(witness(ctx, res, env, st, ta['waiting'].t > 0))
    if res.status == 'holds' and res.witnesses == 0:
        res.status, res.detail = 'inconclusive', 'vacuous'
    res.time = time.time() - t0
    return res


# ---------------------------------------------------------------------------------------------------------------------
# C10: job rules E1101, E1102, E1105, E1106, E1107 and vehicle rule E1306 (numeric / structural kernels of the validator)

JOB_TEMPLATES = {
    # kind -> number of tasks (None = the list is absent, 0 = empty list)
    'pd': {'pickups': 2, 'deliveries': 1, 'replacements': None, 'services': None},
    'mixed': {'pickups': None, 'deliveries': 1, 'replacements': 1, 'services': 1},
    'empty': {'pickups': None, 'deliveries': 0, 'replacements': None, 'services': 0},
    'p-only': {'pickups': 1, 'deliveries': 0, 'replacements': None, 'services': None},
}
JOB_RULES = (('check_e1101_correct_job_types_demand', 'E1101'), ('check_e1102_multiple_pickups_deliveries_demand', 'E1102'),
             ('check_e1105_empty_jobs', 'E1105'), ('check_e1106_negative_duration', 'E1106'), ('check_e1107_negative_demand', 'E1107'))


def ob_job_rules(ctx, template, dims=1, n_places=1):
    """C10: the job rules of the validator (real MIR of check_e1101/02/05/06/07, `ValidationContext::{jobs,tasks}`,
    `MultiDimLoad::{new,sum,sub,ne}` from vrp-core) on one job of the given task layout with symbolic contents - demand
    present or absent per task, every amount and every duration of any sign: each rule returns an error exactly when the
    documented rule is broken, and the error carries the rule's own code."""
    shape = JOB_TEMPLATES[template]
    name = f'job_rules[{template},dims={dims}{",places=" + str(n_places) if n_places > 1 else ""}]'
    res = Result(name)
    res.bounds = (f'one job; tasks per list {shape} (None = list absent); {n_places} alternative place(s) per task; demand per task: absent or {dims} amounts in [-2^14,2^14]; '
                  f'durations integer-valued in [-2^16,2^16]; rules E1101 E1102 E1105 E1106 E1107')
    t0 = time.time()
    fns = {}
    for fname, code in JOB_RULES:
        fns[code] = ctx.prog.find_free(fname)

    class Env(drivers.Env):
        def override(self, engine, st, callee, args, dest_ty):
            base = callee.split('::<')[0]
            if 'core::fmt::rt::' in callee or 'fmt::Arguments' in callee or callee.startswith('Arguments::'):
                return Opaque('fmt argument')      # message formatting is not the subject (empty stub)
            if 'fmt::format' in callee or ']>::join' in callee or 'format_inner' in callee or callee in ('format', 'std::fmt::format', 'alloc::fmt::format'):
                return Opaque('"formatted text"')
            return super().override(engine, st, callee, args, dest_ty)

        def default_of(self, engine, ty):
            base = re.sub(r'<.*$', '', ty).split('::')[-1]
            if base == 'MultiDimLoad':
                return self.struct('load::MultiDimLoad', load=Agg('array', [IV(0, 'i32') for _ in range(8)], '[i32; 8]'), size=IV(0))
            return super().default_of(engine, ty)

    for code, fn in fns.items():
        env = Env(ctx.prog, ctx.layout, 16)
        eng, _ = ctx.engines(env)
        holder = {}

        def body(st, env=env, eng=eng, fn=fn, holder=holder):
            env.assumptions.clear()
            tasks = {}
            fields = {}
            for lst, n in shape.items():
                if n is None:
                    fields[lst] = mk_option(False, ty='Option<Vec<JobTask>>')
                    tasks[lst] = []
                    continue
                items, info = [], []
                for i in range(n):
                    has = z3.Bool(f'{lst}{i}_has_demand')
                    amounts = [env.sym_i(f'{lst}{i}_amount{d}', -2 ** 14, 2 ** 14, 'i32') for d in range(dims)]
                    durs = [env.sym_f(f'{lst}{i}_duration{pi if pi else ""}', -2 ** 16, 2 ** 16) for pi in range(n_places)]
                    places = [env.struct('problem::model::JobPlace', location=Opaque('location'), duration=dur, times=mk_option(False, ty='Option<Vec<Vec<String>>>'),
                                         tag=mk_option(False, ty='Option<String>')) for dur in durs]
                    items.append(env.struct('problem::model::JobTask', places=VecV(places), demand=mk_option(has, VecV(list(amounts)), ty='Option<Vec<i32>>'),
                                            order=mk_option(False, ty='Option<i32>')))
                    info.append((has, amounts, durs))
                fields[lst] = mk_option(True, VecV(items), ty='Option<Vec<JobTask>>')
                tasks[lst] = info
            none = lambda ty: mk_option(False, ty=ty)
            job = env.struct('problem::model::Job', id=Opaque('"job1"'), skills=none('Option<JobSkills>'), value=none('Option<f64>'), group=none('Option<String>'),
                             compatibility=none('Option<String>'), **fields)
            plan_ = env.struct('problem::model::Plan', jobs=VecV([job]), relations=none('Option<Vec<Relation>>'), clustering=none('Option<Clustering>'))
            problem = env.struct('problem::model::Problem', plan=plan_, fleet=Opaque('fleet'), objectives=none('Option<Vec<Objective>>'))
            vctx = env.struct('validation::ValidationContext', problem=RefV(Cell(problem), 0), matrices=none('Option<&Vec<Matrix>>'), coord_index=RefV(Cell(Opaque('coord_index')), 0),
                              job_index=Opaque('job_index'))
            holder['tasks'] = tasks
            return eng.exec_fn(st, fn, [RefV(Cell(vctx), 0)])

        paths = eng.explore(body, max_paths=6000)
        res.paths += len(paths)
        res.functions |= eng.functions_used
        saw_ok = saw_err = False

        def job_case(m, tasks):
            doc = {'id': 'job1'}
            for lst, info in tasks.items():
                if shape[lst] is None:
                    continue
                doc[lst] = []
                for h, a, durs in info:
                    t = {'places': [{'location': {'index': 0}, 'duration': float(_ev_int(m, dur.v))} for dur in durs]}
                    if z3.is_true(m.eval(h, model_completion=True)):
                        t['demand'] = [_ev_int(m, x.t) for x in a]
                    doc[lst].append(t)
            return {'kind': 'job_rules', 'job': doc, 'rule': code, 'dims': dims, 'problem': rules_problem(doc, dims),
                    'matrix': {'profile': 'car', 'travelTimes': [0], 'distances': [0]}}

        def panic_case(st):
            # a reachable panic: concrete document from a model of the panic condition
            for cond, msg in st.panics:
                v, m, _ = ctx.decider.check(list(env.assumptions) + list(st.assumed) + [cond], cross=False)
                if v == 'sat':
                    return job_case(m, holder['tasks'])
            return None

        for st, out in paths:
            if out is None:
                if not no_panic(ctx, res, env, st, what=f'{name} {code}'):
                    if res.status == 'violated':
                        res.case = panic_case(st)
                    break
                continue
            tasks = holder['tasks']
            every = [t for lst in tasks.values() for t in lst]
            need = [t for lst in ('pickups', 'deliveries', 'replacements') for t in tasks[lst]]
            if code == 'E1101':
                broken = z3.Or(*([z3.Not(h) for h, _, _ in need] + [h for h, _, _ in tasks['services']] + [z3.BoolVal(False)]))
            elif code == 'E1102':
                if tasks['pickups'] and tasks['deliveries']:
                    diff = []
                    for d in range(dims):
                        sp = sum([z3.If(h, a[d].t, 0) for h, a, _ in tasks['pickups']], z3.IntVal(0))
                        sd = sum([z3.If(h, a[d].t, 0) for h, a, _ in tasks['deliveries']], z3.IntVal(0))
                        diff.append(sp != sd)
                    broken = z3.Or(*diff)
                else:
                    broken = z3.BoolVal(False)
            elif code == 'E1105':
                broken = z3.BoolVal(len(every) == 0)
            elif code == 'E1106':
                broken = z3.Or(*([dur.v < 0 for _, _, durs in every for dur in durs] + [z3.BoolVal(False)]))
            else:
                broken = z3.Or(*([z3.And(h, a[d].t < 0) for h, a, _ in every for d in range(dims)] + [z3.BoolVal(False)]))
            is_err = zs(out.discr == 1)
            claim = is_err == broken
            if out.variant() != 0 and 1 in out.payload:
                err = out.payload[1][0]
                got = env.field(err, 'format::FormatError', 'code')
                if not (isinstance(got, Opaque) and got.name == f'"{code}"'):
                    res.status, res.detail = 'violated', f'{name}: rule {code} reports code {got!r}'
                    break
            if not decide_claim(ctx, res, env, st, claim, what=f'{name}: {code} reported <=> documented rule broken'):
                if res.status == 'violated' and res.model is not None:
                    m = res.model
                    doc = {'id': 'job1'}
                    for lst, info in tasks.items():
                        if shape[lst] is None:
                            continue
                        doc[lst] = []
                        for h, a, durs in info:
                            t = {'places': [{'location': {'index': 0}, 'duration': float(_ev_int(m, dur.v))} for dur in durs]}
                            if z3.is_true(m.eval(h, model_completion=True)):
                                t['demand'] = [_ev_int(m, x.t) for x in a]
                            doc[lst].append(t)
                    res.case = {'kind': 'job_rules', 'job': doc, 'rule': code, 'dims': dims, 'problem': rules_problem(doc, dims),
                                'matrix': {'profile': 'car', 'travelTimes': [0], 'distances': [0]}}
                break
            if not no_panic(ctx, res, env, st, what=f'{name} {code}'):
                if res.status == 'violated':
                    res.case = panic_case(st)
                break
            saw_ok = saw_ok or witness(ctx, res, env, st, z3.Not(is_err))
            saw_err = saw_err or witness(ctx, res, env, st, is_err)
        if res.status != 'holds':
            break
        res.witnesses += int(saw_ok) + int(saw_err)
        if not (saw_ok or saw_err):
            res.status, res.detail = 'inconclusive', f'vacuous for {code}'
            break
    res.time = time.time() - t0
    return res


def ob_id_rules(ctx):
    """C10 (id and cost rules): `check_e1100` (duplicate job ids), `check_e1104` (reserved job ids), `check_e1300` (duplicate
    vehicle type ids), `check_e1301` (duplicate vehicle ids, across types), `check_e1306` (time and distance cost both zero) -
    real MIR incl. `get_duplicates` with its hash sets as association lists over the id strings - on a plan of three jobs and
    a fleet of two vehicle types (1-2 vehicle ids each) whose ids are symbolic choices from small alphabets and whose costs
    are symbolic: each rule is reported exactly when the documented condition is broken."""
    name = 'id_rules'
    res = Result(name)
    res.bounds = ('3 jobs, ids from {a, b, departure, break}; 2 vehicle types, type ids from {t1, t2}, vehicle ids (1 + 2) from {v1, v2, v3}; '
                  'time / distance costs integer-valued in [0,2^16]')
    t0 = time.time()
    rules = {'E1100': 'check_e1100_no_jobs_with_duplicate_ids', 'E1104': 'check_e1104_no_reserved_ids', 'E1300': 'check_e1300_no_vehicle_types_with_duplicate_type_ids',
             'E1301': 'check_e1301_no_vehicle_types_with_duplicate_ids', 'E1306': 'check_e1306_vehicle_has_no_zero_costs'}
    none = lambda ty: mk_option(False, ty=ty)
    JOB_IDS = ('a', 'b', 'departure', 'break')
    for code, fname in rules.items():
        fn = ctx.prog.find_free(fname)

        class Env(CheckerEnv):
            symbolic_maps = True

        env = Env(ctx.prog, ctx.layout, 16)
        eng, _ = ctx.engines(env)
        holder = {}

        def body(st, env=env, eng=eng, fn=fn, holder=holder, code=code):
            env.assumptions.clear()
            jids = []
            for i in range(3):
                c = z3.Int(f'job{i}_id')
                jids.append(eng.choose(st, [(c == k, JOB_IDS[k]) for k in range(4)]) if code in ('E1100', 'E1104') else f'job{i}')
            jobs = [env.struct('problem::model::Job', id=Opaque(f'"{j}"'), pickups=none('Option<Vec<JobTask>>'), deliveries=none('Option<Vec<JobTask>>'),
                               replacements=none('Option<Vec<JobTask>>'), services=none('Option<Vec<JobTask>>'), skills=none('Option<JobSkills>'), value=none('Option<f64>'),
                               group=none('Option<String>'), compatibility=none('Option<String>')) for j in jids]
            tids, vids, costs = [], [], []
            types = []
            for t in range(2):
                c = z3.Int(f'type{t}_id')
                tid = eng.choose(st, [(c == 0, 't1'), (c == 1, 't2')]) if code == 'E1300' else f't{t + 1}'
                ids = []
                for v in range(1 + t):
                    cv = z3.Int(f'type{t}_vehicle{v}_id')
                    ids.append(eng.choose(st, [(cv == k, x) for k, x in enumerate(('v1', 'v2', 'v3'))]) if code == 'E1301' else f'v{t}{v}')
                ct, cd = env.sym_f(f'type{t}_time_cost'), env.sym_f(f'type{t}_distance_cost')
                vc = env.struct('problem::model::VehicleCosts', fixed=none('Option<f64>'), distance=cd, time=ct)
                types.append(Agg('struct', [Opaque(f'"{tid}"') if f == 'type_id' else VecV([Opaque(f'"{x}"') for x in ids]) if f == 'vehicle_ids' else vc if f == 'costs' else Opaque(f)
                                            for f in ctx.layout.fields('problem::model::VehicleType')], 'problem::model::VehicleType'))
                tids.append(tid); vids.append(ids); costs.append((ct, cd))
            fleet = Agg('struct', [VecV(types) if f == 'vehicles' else Opaque(f) for f in ctx.layout.fields('problem::model::Fleet')], 'problem::model::Fleet')
            plan_ = env.struct('problem::model::Plan', jobs=VecV(jobs), relations=none('Option<Vec<Relation>>'), clustering=none('Option<Clustering>'))
            problem = env.struct('problem::model::Problem', plan=plan_, fleet=fleet, objectives=none('Option<Vec<Objective>>'))
            vctx = env.struct('validation::ValidationContext', problem=RefV(Cell(problem), 0), matrices=none('Option<&Vec<Matrix>>'), coord_index=RefV(Cell(Opaque('coord_index')), 0),
                              job_index=Opaque('job_index'))
            holder.update(jids=jids, tids=tids, vids=vids, costs=costs)
            return (list(jids), list(tids), [list(x) for x in vids], eng.exec_fn(st, fn, [RefV(Cell(vctx), 0)]))

        paths = eng.explore(body, max_paths=6000)
        res.paths += len(paths)
        res.functions |= eng.functions_used
        saw_ok = saw_err = False
        for st, out in paths:
            if out is None:
                if not no_panic(ctx, res, env, st, what=name):
                    break
                continue
            jids, tids, vids, r = out
            costs = holder['costs']
            flat = [x for ids in vids for x in ids]
            broken = {'E1100': z3.BoolVal(len(set(jids)) != len(jids)), 'E1104': z3.BoolVal(any(j in ('departure', 'arrival', 'break', 'reload') for j in jids)),
                      'E1300': z3.BoolVal(len(set(tids)) != len(tids)), 'E1301': z3.BoolVal(len(set(flat)) != len(flat)),
                      'E1306': z3.Or(*[z3.And(ct.v == 0, cd.v == 0) for ct, cd in costs])}[code]
            reported = r.discr == 1
            if not decide_claim(ctx, res, env, st, reported == broken, what=f'{name}: {code} reported <=> rule broken (jobs {jids}, types {tids}, vehicles {vids})'):
                if res.status == 'violated' and res.model is not None:
                    m = res.model
                    cost_doc = [{'fixed': 1.0, 'time': float(_ev_int(m, ct.v)), 'distance': float(_ev_int(m, cd.v))} for ct, cd in costs]
                    far = rfc3339(30 * 86400)
                    vehicles = [{'typeId': tids[t], 'vehicleIds': vids[t], 'profile': {'matrix': 'car'}, 'costs': cost_doc[t],
                                 'shifts': [{'start': {'earliest': rfc3339(0), 'location': {'index': 0}}, 'end': {'latest': far, 'location': {'index': 0}}}], 'capacity': [10]} for t in range(2)]
                    jobs_doc = [{'id': j, 'deliveries': [{'places': [{'location': {'index': 0}, 'duration': 0.0}], 'demand': [1]}]} for j in jids]
                    res.case = {'kind': 'id_rules', 'rule': code, 'broken': bool(z3.is_true(m.eval(broken, model_completion=True))),
                                'problem': {'plan': {'jobs': jobs_doc}, 'fleet': {'vehicles': vehicles, 'profiles': [{'name': 'car'}]}},
                                'matrix': {'profile': 'car', 'travelTimes': [0], 'distances': [0]}}
                break
            if not no_panic(ctx, res, env, st, what=name):
                break
            saw_ok = saw_ok or witness(ctx, res, env, st, z3.Not(reported))
            saw_err = saw_err or witness(ctx, res, env, st, reported)
        if res.status != 'holds':
            break
        res.witnesses += int(saw_ok) + int(saw_err)
        if not (saw_ok and saw_err):
            res.status, res.detail = 'inconclusive', f'vacuous ({code}): ok={saw_ok} err={saw_err}'
            break
    res.time = time.time() - t0
    return res


def ob_relation_rules(ctx):
    """C10 (relation rules): `check_e1200` (unknown job), `check_e1201` (unknown vehicle), `check_e1202` (no job in a relation),
    `check_e1204` (a job pinned to two vehicles), `check_e1205` (shift index outside the vehicle's shifts) - real MIR, the job
    index / vehicle map / job->vehicle map as association lists over the id strings - on two relations (2 + 1 job slots, a
    slot may be empty) whose vehicle ids, shift indices and job ids are symbolic choices: each code is reported exactly when
    its documented condition is broken."""
    from symex import AMapV
    name = 'relation_rules'
    res = Result(name)
    res.bounds = ('plan jobs j1, j2; fleet v1 (one shift), v2 (two shifts); two relations with 2 + 1 job slots, each slot empty or one of j1, j2, jX, departure; '
                  'vehicle id from v1, v2, v9; shift index absent or 0..2')
    t0 = time.time()
    rules = {'E1200': 'check_e1200_job_existence', 'E1201': 'check_e1201_vehicle_existence', 'E1202': 'check_e1202_empty_job_list',
             'E1204': 'check_e1204_job_assigned_to_multiple_vehicles', 'E1205': 'check_e1205_relation_has_correct_shift_index',
             'E1206': 'check_e1206_relation_has_no_missing_shift_properties'}
    none = lambda ty: mk_option(False, ty=ty)
    RESERVED = ('departure', 'arrival', 'break', 'reload')
    for code, fname in rules.items():
        fn = ctx.prog.find_free(fname)

        class Env(CheckerEnv):
            symbolic_maps = True

        env = Env(ctx.prog, ctx.layout, 16)
        eng, _ = ctx.engines(env)

        def body(st, env=env, eng=eng, fn=fn, code=code):
            env.assumptions.clear()
            rels, doc = [], []
            for r, n_slots in enumerate((2, 1)):
                if r == 1 and code in ('E1205', 'E1206'):
                    # these rules look at one relation at a time: the second relation is a fixed valid one
                    rels.append(env.struct('problem::model::Relation', type_field=EnumV('model::RelationType', 0, {}), jobs=VecV([Opaque('"j2"')]),
                                           vehicle_id=Opaque('"v1"'), shift_index=none('Option<usize>')))
                    doc.append({'vehicle': 'v1', 'shift': None, 'jobs': ['j2']})
                    continue
                cv = z3.Int(f'relation{r}_vehicle')
                # only the inputs a rule looks at are symbolic for it
                vid = eng.choose(st, [(cv == k, x) for k, x in enumerate(('v1', 'v2', 'v9'))]) if code in ('E1201', 'E1204', 'E1205') else \
                    eng.choose(st, [(cv == 0, 'v1'), (cv == 1, 'v2')]) if code == 'E1206' else 'v1'
                cs = z3.Int(f'relation{r}_shift')
                shift = eng.choose(st, [(cs == k, x) for k, x in enumerate((None, 0, 1, 2))]) if code == 'E1205' else \
                    eng.choose(st, [(cs == k, x) for k, x in enumerate((None, 0, 1))]) if code == 'E1206' else None
                ids = []
                for j in range(n_slots):
                    cj = z3.Int(f'relation{r}_job{j}')
                    jid = eng.choose(st, [(cj == k, x) for k, x in enumerate((None, 'j1', 'j2', 'jX', 'departure'))]) if code in ('E1200', 'E1202') else \
                        eng.choose(st, [(cj == k, x) for k, x in enumerate((None, 'j1', 'j2', 'departure'))]) if code == 'E1204' else \
                        eng.choose(st, [(cj == k, x) for k, x in enumerate(('j1', 'break', 'reload', 'arrival', 'departure'))]) if (code == 'E1206' and j == 0) else 'j1'
                    if jid is not None:
                        ids.append(jid)
                rels.append(env.struct('problem::model::Relation', type_field=EnumV('model::RelationType', 0, {}), jobs=VecV([Opaque(f'"{x}"') for x in ids]),
                                       vehicle_id=Opaque(f'"{vid}"'), shift_index=mk_option(True, IV(shift), ty='Option<usize>') if shift is not None else none('Option<usize>')))
                doc.append({'vehicle': vid, 'shift': shift, 'jobs': ids})
            relations = VecV(rels)
            flags = {}

            def mk_shift(vid_, i):
                fl = {k: z3.Bool(f'{vid_}_shift{i}_has_{k}') for k in ('breaks', 'reloads', 'end')}
                flags[(vid_, i)] = fl
                return env.struct('problem::model::VehicleShift', start=Opaque('start'), end=mk_option(fl['end'], Opaque('end'), ty='Option<ShiftEnd>'),
                                  breaks=mk_option(fl['breaks'], Opaque('breaks'), ty='Option<Vec<VehicleBreak>>'),
                                  reloads=mk_option(fl['reloads'], Opaque('reloads'), ty='Option<Vec<VehicleReload>>'), recharges=none('Option<VehicleRecharges>'))
            mk_vt = lambda n_shifts, vid_='v': Agg('struct', [VecV([mk_shift(vid_, i) for i in range(n_shifts)]) if f == 'shifts' else Opaque(f)
                                                              for f in ctx.layout.fields('problem::model::VehicleType')], 'problem::model::VehicleType')
            vehicle_map = AMapV([(Opaque('"v1"'), RefV(Cell(mk_vt(1, 'v1')), 0)), (Opaque('"v2"'), RefV(Cell(mk_vt(2, 'v2')), 0))])
            job_index = AMapV([(Opaque('"j1"'), Opaque('job1')), (Opaque('"j2"'), Opaque('job2'))])
            vctx = env.struct('validation::ValidationContext', problem=RefV(Cell(Opaque('problem')), 0), matrices=none('Option<&Vec<Matrix>>'),
                              coord_index=RefV(Cell(Opaque('coord_index')), 0), job_index=job_index)
            args = {'E1200': [RefV(Cell(vctx), 0), RefV(Cell(relations), 0)], 'E1201': [RefV(Cell(relations), 0), RefV(Cell(vehicle_map), 0)],
                    'E1202': [RefV(Cell(relations), 0)], 'E1204': [RefV(Cell(relations), 0)], 'E1205': [RefV(Cell(relations), 0), RefV(Cell(vehicle_map), 0)],
                    'E1206': [RefV(Cell(relations), 0), RefV(Cell(vehicle_map), 0)]}[code]
            return (doc, eng.exec_fn(st, fn, args), flags)

        paths = eng.explore(body, max_paths=20000)
        res.paths += len(paths)
        res.functions |= eng.functions_used
        saw_ok = saw_err = False
        for st, out in paths:
            if out is None:
                if not no_panic(ctx, res, env, st, what=name):
                    break
                continue
            doc, r, flags = out
            shifts_of = {'v1': 1, 'v2': 2}
            first_vehicle = {}
            multi = False
            for rel in doc:
                for j in rel['jobs']:
                    if j in RESERVED:
                        continue
                    if first_vehicle.setdefault(j, rel['vehicle']) != rel['vehicle']:
                        multi = True
            broken = {
                'E1200': any(j not in RESERVED and j not in ('j1', 'j2') for rel in doc for j in rel['jobs']),
                'E1201': any(rel['vehicle'] not in shifts_of for rel in doc),
                'E1202': any(all(j in RESERVED for j in rel['jobs']) for rel in doc),
                'E1204': multi,
                'E1205': any(rel['vehicle'] in shifts_of and (rel['shift'] or 0) >= shifts_of[rel['vehicle']] for rel in doc),
                'E1206': None}[code]
            if code == 'E1206':
                # a reserved id names a property of THE shift the relation refers to
                PROP = {'break': 'breaks', 'reload': 'reloads', 'arrival': 'end'}
                terms = []
                for rel in doc:
                    sh = rel['shift'] or 0
                    if rel['vehicle'] in shifts_of and sh < shifts_of[rel['vehicle']]:
                        terms += [z3.Not(flags[(rel['vehicle'], sh)][PROP[j]]) for j in rel['jobs'] if j in PROP]
                broken_t = z3.Or(*terms) if terms else z3.BoolVal(False)
                if not decide_claim(ctx, res, env, st, (r.discr == 1) == broken_t, what=f'{name}: E1206 reported <=> a reserved id names a property the referenced shift lacks ({doc})'):
                    if res.status == 'violated' and res.model is not None:
                        m = res.model
                        tv = lambda b: bool(z3.is_true(m.eval(b, model_completion=True)))
                        res.case = {'kind': 'relation_rules', 'rule': code, 'broken': tv(broken_t), 'relations': doc,
                                    'shift_flags': {f'{v}/{i}': {k: tv(b) for k, b in fl.items()} for (v, i), fl in flags.items()}}
                    break
                if not no_panic(ctx, res, env, st, what=name):
                    break
                saw_ok = saw_ok or witness(ctx, res, env, st, r.discr == 0)
                saw_err = saw_err or witness(ctx, res, env, st, r.discr == 1)
                continue
            rep = r.variant()
            if rep is None:
                res.status, res.detail = 'inconclusive', 'symbolic result'
                break
            if not decide_claim(ctx, res, env, st, z3.BoolVal(bool(rep) == broken), what=f'{name}: {code} is {"reported" if rep else "not reported"}, rule {"broken" if broken else "kept"} for relations {doc}'):
                if res.status == 'violated':
                    res.case = {'kind': 'relation_rules', 'rule': code, 'broken': broken, 'relations': doc}
                break
            if not no_panic(ctx, res, env, st, what=name):
                break
            saw_ok = saw_ok or not broken
            saw_err = saw_err or broken
        if res.status != 'holds':
            break
        res.witnesses += int(saw_ok) + int(saw_err)
        if not (saw_ok and saw_err):
            res.status, res.detail = 'inconclusive', f'vacuous ({code}): ok={saw_ok} err={saw_err}'
            break
    res.time = time.time() - t0
    return res


def ob_unassigned_writer(ctx, n_jobs):
    """C02 (writer side of job accounting): `create_unassigned` of the pragmatic writer (real MIR incl. the grouping of detailed
    reasons by code) on a solution with `n_jobs` unassigned entries - each symbolically a customer job or a vehicle-bound one
    (break / reload: carries a vehicle id and is not reported), with no code, one code, or per-vehicle codes (0-2 entries,
    codes symbolic): every customer job is written exactly once, in order, with AT LEAST ONE reason; one reason per distinct
    code; the vehicles listed under a reason are exactly the vehicles that reported that code."""
    name = f'unassigned_writer[jobs={n_jobs}]'
    res = Result(name)
    res.bounds = f'{n_jobs} unassigned entries; kind (customer / vehicle-bound) and reason info (unknown / simple / detailed with 0-2 (vehicle, code) pairs, codes from 2 values) symbolic choices'
    t0 = time.time()
    fn = ctx.prog.find_free('create_unassigned')

    class Env(CheckerEnv):
        symbolic_maps = True

        def override(self, engine, st, callee, args, dest_ty):
            if callee.endswith('map_code_reason'):
                code = deref_all(args[0])
                c = code.fields[0].concrete()
                return Agg('tuple', [Opaque(f'"CODE{c}"'), Opaque(f'"reason{c}"')], '')
            return super().override(engine, st, callee, args, dest_ty)

    env = Env(ctx.prog, ctx.layout, 8)
    eng, _ = ctx.engines(env)
    none = lambda ty: mk_option(False, ty=ty)

    def body(st):
        env.assumptions.clear()
        vc = lambda c: Agg('struct', [IV(c, 'i32')], 'ViolationCode')

        def actor(vid, shift):
            veh = Agg('struct', [StateV({'vehicle_id': Opaque(f'"{vid}"'), 'shift_index': IV(shift)}) if f == 'dimens' else Opaque(f) for f in ctx.layout.fields('fleet::Vehicle')], 'fleet::Vehicle')
            return ArcV(Cell(Agg('struct', [ArcV(Cell(veh)) if f == 'vehicle' else Opaque(f) for f in ctx.layout.fields('fleet::Actor')], 'fleet::Actor')))
        actors = [actor('v1', 0), actor('v2', 1)]
        entries, doc = [], []
        for i in range(n_jobs):
            k = z3.Int(f'job{i}_kind')
            bound = eng.choose(st, [(k == 0, False), (k == 1, True)])
            dim = {'job_id': Opaque(f'"job{i}"')}
            if bound:
                dim['vehicle_id'] = Opaque('"v1"')
            single = ArcV(Cell(Agg('struct', [StateV(dim) if f == 'dimens' else VecV([]) for f in ctx.layout.fields('jobs::Single')], 'jobs::Single')))
            job = EnumV('jobs::Job', 0, {0: [single]})
            t = z3.Int(f'job{i}_info')
            info_kind = eng.choose(st, [(t == 0, 'unknown'), (t == 1, 'simple'), (t == 2, 'detailed0'), (t == 3, 'detailed1'), (t == 4, 'detailed2')])
            codes = []
            if info_kind == 'unknown':
                info = EnumV('context::UnassignmentInfo', 0, {})
            elif info_kind == 'simple':
                c = z3.Int(f'job{i}_code')
                code = eng.choose(st, [(c == 1, 1), (c == 2, 2)])
                codes = [code]
                info = EnumV('context::UnassignmentInfo', 1, {1: [vc(code)]})
            else:
                nd = int(info_kind[-1])
                pairs = []
                for d in range(nd):
                    c = z3.Int(f'job{i}_detail{d}_code')
                    code = eng.choose(st, [(c == 1, 1), (c == 2, 2)])
                    codes.append(code)
                    pairs.append(Agg('tuple', [actors[d], vc(code)], ''))
                info = EnumV('context::UnassignmentInfo', 2, {2: [VecV(pairs)]})
            entries.append(Agg('tuple', [job, info], ''))
            doc.append({'bound': bound, 'info': info_kind, 'codes': codes})
        sol_fields = ctx.layout.fields('domain::Solution')
        solution = Agg('struct', [VecV(entries) if f == 'unassigned' else Opaque(f) for f in sol_fields], 'domain::Solution')
        return (doc, eng.exec_fn(st, fn, [RefV(Cell(solution), 0)]))

    paths = eng.explore(body, max_paths=60000)
    res.paths = len(paths)
    res.functions |= eng.functions_used
    saw_some = saw_none = False
    for st, out in paths:
        if out is None:
            if not no_panic(ctx, res, env, st, what=name):
                break
            continue
        doc, r = out
        customers = [(i, d) for i, d in enumerate(doc) if not d['bound']]
        problems = []
        var = r.variant()
        if not customers:
            if var != 0:
                problems.append('no customer job is unassigned but a list is written')
        elif var != 1:
            problems.append('customer jobs are unassigned but nothing is written')
        else:
            items = deref_all(r.payload[1][0]).items
            ids = [deref_all(env.field(x, 'solution::model::UnassignedJob', 'job_id')).name.strip('"') for x in items]
            if ids != [f'job{i}' for i, _ in customers]:
                problems.append(f'written ids {ids}, expected {[f"job{i}" for i, _ in customers]}')
            else:
                for x, (i, d) in zip(items, customers):
                    reasons = env.field(x, 'solution::model::UnassignedJob', 'reasons').items
                    got = []
                    for rs in reasons:
                        code = deref_all(env.field(rs, 'solution::model::UnassignedJobReason', 'code')).name.strip('"')
                        det = env.field(rs, 'solution::model::UnassignedJobReason', 'details')
                        vs = None
                        if det.variant() == 1:
                            vs = [(deref_all(env.field(dd, 'solution::model::UnassignedJobDetail', 'vehicle_id')).name.strip('"'),
                                   env.field(dd, 'solution::model::UnassignedJobDetail', 'shift_index').concrete()) for dd in deref_all(det.payload[1][0]).items]
                        got.append((code, vs))
                    if d['info'] in ('unknown', 'detailed0'):
                        want = [('CODE0', None)]
                    elif d['info'] == 'simple':
                        want = [(f'CODE{d["codes"][0]}', None)]
                    else:
                        want = []
                        for c in sorted(set(d['codes']), key=d['codes'].index):
                            want.append((f'CODE{c}', sorted([('v1', 0), ('v2', 1)][k] for k, cc in enumerate(d['codes']) if cc == c)))
                    if not got:
                        problems.append(f'job{i} is written without a reason')
                    elif sorted(got, key=str) != sorted(want, key=str):
                        problems.append(f'job{i} ({d}): reasons {got}, expected {want}')
        if not decide_claim(ctx, res, env, st, z3.BoolVal(not problems), what=f'{name}: entries {doc}: ' + '; '.join(problems)[:400]):
            if res.status == 'violated':
                res.case = {'kind': 'unassigned_writer', 'entries': doc}
            break
        if not no_panic(ctx, res, env, st, what=name):
            break
        saw_some = saw_some or bool(customers)
        saw_none = saw_none or not customers
    if res.status == 'holds':
        res.witnesses = int(saw_some) + int(saw_none)
        if not (saw_some and saw_none):
            res.status, res.detail = 'inconclusive', 'vacuous'
    res.time = time.time() - t0
    return res


def ob_read_locks(ctx):
    """C01 (relation pinning, translation of the documents): `read_locks` of the job reader (real MIR; the bucket map as an
    association list over (vehicle id, shift index)) on two relations whose vehicle id, shift index, type and first / last entry
    (a job or the reserved `departure` / `arrival`) are symbolic choices: every relation becomes exactly one lock detail - same
    order kind, position derived from the reserved ends, its jobs in order - inside a lock whose condition is built for THAT
    relation's vehicle id and shift index (absent shift index = 0); one lock per distinct (vehicle, shift)."""
    from symex import AMapV
    name = 'read_locks'
    res = Result(name)
    res.bounds = ('two relations: vehicle id in {v1, v2}, shift index absent / 0 / 1, type any / sequence / strict (first relation), first entry departure or job j1, '
                  'last entry arrival or job j3, middle job j2; second relation: job j4, type any')
    t0 = time.time()
    fn = ctx.prog.find_free('read_locks')
    none = lambda ty: mk_option(False, ty=ty)

    class Env(CheckerEnv):
        symbolic_maps = True

        def override(self, engine, st, callee, args, dest_ty):
            if callee.endswith('create_condition'):
                return ArcV(Cell(Agg('struct', [args[0], args[1]], 'LockCondition')))
            return super().override(engine, st, callee, args, dest_ty)

    env = Env(ctx.prog, ctx.layout, 8)
    eng, _ = ctx.engines(env)
    TYPES = ('any', 'sequence', 'strict')

    def body(st):
        env.assumptions.clear()
        doc, rels = [], []
        for r in range(2):
            cv = z3.Int(f'relation{r}_vehicle')
            vid = eng.choose(st, [(cv == 0, 'v1'), (cv == 1, 'v2')])
            cs = z3.Int(f'relation{r}_shift')
            shift = eng.choose(st, [(cs == k, x) for k, x in enumerate((None, 0, 1))])
            if r == 0:
                ct = z3.Int('relation0_type')
                ty = eng.choose(st, [(ct == k, k) for k in range(3)])
                cf, cl = z3.Int('relation0_first'), z3.Int('relation0_last')
                first = eng.choose(st, [(cf == 0, 'departure'), (cf == 1, 'j1')])
                last = eng.choose(st, [(cl == 0, 'arrival'), (cl == 1, 'j3')])
                jobs = [first, 'j2', last]
            else:
                ty, jobs = 0, ['j4']
            rels.append(env.struct('problem::model::Relation', type_field=EnumV('model::RelationType', ty, {}), jobs=VecV([Opaque(f'"{x}"') for x in jobs]),
                                   vehicle_id=Opaque(f'"{vid}"'), shift_index=mk_option(True, IV(shift), ty='Option<usize>') if shift is not None else none('Option<usize>')))
            doc.append({'vehicle': vid, 'shift': shift, 'type': TYPES[ty], 'jobs': jobs})
        plan_ = env.struct('problem::model::Plan', jobs=VecV([]), relations=mk_option(True, VecV(rels), ty='Option<Vec<Relation>>'), clustering=none('Option<Clustering>'))
        problem = env.struct('problem::model::Problem', plan=plan_, fleet=Opaque('fleet'), objectives=none('Option<Vec<Objective>>'))
        job_index = AMapV([(Opaque(f'"j{i}"'), EnumV('jobs::Job', 0, {0: [ArcV(Cell(Opaque(f'single_j{i}')))]})) for i in range(1, 5)])
        out = eng.exec_fn(st, fn, [RefV(Cell(problem), 0), RefV(Cell(job_index), 0)])
        return (doc, out)

    paths = eng.explore(body, max_paths=20000)
    res.paths = len(paths)
    res.functions |= eng.functions_used
    for st, out in paths:
        if out is None:
            if not no_panic(ctx, res, env, st, what=name):
                break
            continue
        doc, locks = out
        got = []
        for lk in locks.items:
            lock = deref_all(lk)
            while isinstance(lock, ArcV):
                lock = lock.cell.v
            cond = deref_all(env.field(lock, 'domain::Lock', 'condition_fn'))
            while isinstance(cond, ArcV):
                cond = cond.cell.v
            key = (deref_all(cond.fields[0]).name.strip('"'), cond.fields[1].concrete())
            for d in env.field(lock, 'domain::Lock', 'details').items:
                def variant_of(v):
                    if hasattr(v, 'variant'):
                        return v.variant()
                    # a unit variant built by name: `LockOrder::Strict` appears as an aggregate called `Strict`
                    nm = (getattr(v, 'ty', '') or '').split('::')[-1]
                    if nm in ('Any', 'Sequence', 'Strict', 'Departure', 'Arrival', 'Fixed'):
                        return {'Any': 0, 'Sequence': 1, 'Strict': 2, 'Departure': 1, 'Arrival': 2, 'Fixed': 3}[nm]
                    raise Inconclusive(f'enum value {v!r} (kind {getattr(v, "kind", None)}, ty {getattr(v, "ty", None)}, fn {getattr(v, "fn_name", None)})')
                order = variant_of(env.field(d, 'domain::LockDetail', 'order'))
                pos = variant_of(env.field(d, 'domain::LockDetail', 'position'))
                jobs = [deref_all(j.payload[0][0]).cell.v.name.replace('single_', '') for j in env.field(d, 'domain::LockDetail', 'jobs').items]
                got.append((key, TYPES[order], ('any', 'departure', 'arrival', 'fixed')[pos], jobs))
        want = []
        for rel in doc:
            f, l = rel['jobs'][0], rel['jobs'][-1]
            pos = 'fixed' if (f == 'departure' and l == 'arrival') else 'departure' if f == 'departure' else 'arrival' if l == 'arrival' else 'any'
            want.append(((rel['vehicle'], rel['shift'] or 0), rel['type'], pos, [j for j in rel['jobs'] if j not in ('departure', 'arrival')]))
        n_locks = len(locks.items)
        problems = []
        if sorted(got, key=str) != sorted(want, key=str):
            problems.append(f'lock details (vehicle/shift of the condition, order, position, jobs) {sorted(got, key=str)}, expected {sorted(want, key=str)}')
        if n_locks != len({w[0] for w in want}):
            problems.append(f'{n_locks} locks for {len({w[0] for w in want})} distinct (vehicle, shift) pairs')
        if not decide_claim(ctx, res, env, st, z3.BoolVal(not problems), what=f'{name}: relations {doc}: ' + '; '.join(problems)[:500]):
            if res.status == 'violated':
                res.case = {'kind': 'read_locks', 'relations': doc}
            break
        if not no_panic(ctx, res, env, st, what=name):
            break
        res.witnesses += 1
    if res.status == 'holds' and res.witnesses == 0:
        res.status, res.detail = 'inconclusive', 'vacuous'
    res.time = time.time() - t0
    return res


def rules_problem(job, dims, costs=None):
    far = rfc3339(30 * 86400)
    return {'plan': {'jobs': [job]},
            'fleet': {'vehicles': [{'typeId': 'type1', 'vehicleIds': ['v1'], 'profile': {'matrix': 'car'}, 'costs': costs or {'fixed': 1.0, 'distance': 1.0, 'time': 1.0},
                                    'shifts': [{'start': {'earliest': rfc3339(0), 'location': {'index': 0}}, 'end': {'latest': far, 'location': {'index': 0}}}],
                                    'capacity': [10] * dims}],
                      'profiles': [{'name': 'car'}]}}


# ---------------------------------------------------------------------------------------------------------------------
# C12: the solution checker - limits group

class CheckerEnv(drivers.Env):
    """Environment shared by the checker obligations: context look-ups answer from the template, time strings carry numbers."""

    def override(self, engine, st, callee, args, dest_ty):
        if callee.endswith('parse_time'):
            v = deref_all(args[0])
            if isinstance(v, Agg) and v.ty == 'FormattedTime':
                return v.fields[0]
            raise Inconclusive(f'parse_time of {v!r}')
        if callee.split('::<')[0].endswith('format_time'):
            return Agg('struct', [args[0]], 'FormattedTime')
        if callee.endswith('CheckerContext::get_vehicle'):
            return EnumV(dest_ty or 'Result', 0, {0: [RefV(Cell(self.vehicle), 0)]})
        if callee.endswith('CheckerContext::get_vehicle_shift'):
            return EnumV(dest_ty or 'Result', 0, {0: [symex.copy_value(self.shift)]})
        if 'core::fmt::rt::' in callee or 'fmt::Arguments' in callee or callee.startswith('Arguments::'):
            return Opaque('fmt argument')
        if 'fmt::format' in callee or ']>::join' in callee or 'format_inner' in callee or callee in ('format', 'std::fmt::format', 'alloc::fmt::format'):
            return Opaque('"formatted text"')
        return super().override(engine, st, callee, args, dest_ty)


def time_str(fv):
    return Agg('struct', [fv], 'FormattedTime')


def ob_checker_demand(ctx, layout):
    """C12 (load group, which task an activity refers to): `get_demand` with the real `CheckerContext::visit_job` and
    `match_job_task` (MIR) for a job whose task lists are given by `layout` (e.g. ('d', 'd') = two deliveries), each task with
    its own symbolic demand and its own place tag; the activity's type and tag are symbolic choices.  The demand handed to the
    load rule is the demand of the task the activity really refers to: the only task of its kind for single-task jobs and
    pickup+delivery pairs, otherwise the task (of the activity's kind) that carries the activity's tag; an activity that
    refers to no task is an error; the demand type follows the documented table (static / dynamic by whether the job has
    both pickups and deliveries)."""
    name = f'checker_demand[tasks={"".join(layout)}]'
    res = Result(name)
    res.bounds = f'one job with tasks {layout} (p=pickup, d=delivery, s=service, r=replacement), one tagged place and one symbolic 1-dim demand each; activity type and tag symbolic choices'
    t0 = time.time()
    fn = ctx.prog.find_free('get_demand')
    dt_enum = 'checker::capacity::DemandType'
    KIND = {'p': 'pickup', 'd': 'delivery', 's': 'service', 'r': 'replacement'}

    class Env(CheckerEnv):
        def default_of(self, engine, ty):
            base = re.sub(r'<.*$', '', ty).split('::')[-1]
            if base == 'MultiDimLoad':
                return self.struct('load::MultiDimLoad', load=Agg('array', [IV(0, 'i32')] * 8, '[i32; 8]'), size=IV(0))
            return super().default_of(engine, ty)

    env = Env(ctx.prog, ctx.layout, 16)
    eng, _ = ctx.engines(env)
    holder = {}
    none = lambda ty: mk_option(False, ty=ty)

    def body(st):
        env.assumptions.clear()
        tasks = {k: [] for k in KIND}
        amounts = []
        for i, k in enumerate(layout):
            amount = env.sym_i(f'demand_{i}', 0, 2 ** 14, 'i32')
            amounts.append(amount)
            place = env.struct('problem::model::JobPlace', location=Opaque('location'), duration=FV.const(0), times=none('Option<Vec<Vec<String>>>'),
                               tag=mk_option(True, Opaque(f'"tag{i}"'), ty='Option<String>'))
            tasks[k].append(env.struct('problem::model::JobTask', places=VecV([place]), demand=mk_option(True, VecV([amount]), ty='Option<Vec<i32>>'), order=none('Option<i32>')))
        lst = lambda k: mk_option(True, VecV(tasks[k]), ty='Option<Vec<JobTask>>') if tasks[k] else none('Option<Vec<JobTask>>')
        job = env.struct('problem::model::Job', id=Opaque('"job1"'), pickups=lst('p'), deliveries=lst('d'), replacements=lst('r'), services=lst('s'),
                         skills=none('Option<JobSkills>'), value=none('Option<f64>'), group=none('Option<String>'), compatibility=none('Option<String>'))
        v = z3.Int('activity_type')
        akind = eng.choose(st, [(v == i, k) for i, k in enumerate('pdsr')])
        t = z3.Int('activity_tag')
        atag = eng.choose(st, [(t == i, i) for i in range(-1, len(layout))])
        act = env.struct('solution::model::Activity', job_id=Opaque('"job1"'), activity_type=Opaque('"%s"' % KIND[akind]), location=none('Option<Location>'),
                         time=none('Option<Interval>'), job_tag=mk_option(True, Opaque(f'"tag{atag}"'), ty='Option<String>') if atag >= 0 else none('Option<String>'),
                         commute=none('Option<Commute>'))
        atype = EnumV('checker::ActivityType', 1, {1: [job]})
        context = Agg('struct', [Opaque(f) for f in ctx.layout.fields('checker::CheckerContext')], 'checker::CheckerContext')
        holder.update(amounts=amounts)
        return (akind, atag, eng.exec_fn(st, fn, [RefV(Cell(context), 0), RefV(Cell(act), 0), RefV(Cell(atype), 0)]))

    paths = eng.explore(body, max_paths=6000)
    res.paths = len(paths)
    res.functions |= eng.functions_used
    saw_ok = saw_err = False
    n_tasks = len(layout)
    pair = n_tasks == 2 and sorted(layout) == ['d', 'p']
    dynamic = 'p' in layout and 'd' in layout
    for st, out in paths:
        if out is None:
            if not no_panic(ctx, res, env, st, what=name):
                break
            continue
        akind, atag, r = out
        amounts = holder['amounts']
        of_kind = [i for i, k in enumerate(layout) if k == akind]
        if n_tasks < 2 or pair:
            want = of_kind[0] if of_kind else None
        elif atag < 0:
            want = None
        else:
            want = atag if atag in of_kind else None
        is_ok = r.variant()
        if is_ok is None:
            res.status, res.detail = 'inconclusive', 'symbolic result variant'
            break
        if want is None:
            claim = z3.BoolVal(is_ok == 1)
        elif is_ok != 0:
            claim = z3.BoolVal(False)
        else:
            dtype, load = r.payload[0][0].fields
            arr = env.field(load, 'load::MultiDimLoad', 'load').fields
            exp_type = {'r': 'StaticPickupDelivery', 'p': 'DynamicPickup' if dynamic else 'StaticPickup', 'd': 'DynamicDelivery' if dynamic else 'StaticDelivery', 's': 'None'}[akind]
            claim = z3.And(arr[0].t == amounts[want].t, dtype.discr == DEMAND_KIND_INDEX[exp_type])
        if not decide_claim(ctx, res, env, st, claim, what=f'{name}: activity ({KIND[akind]}, tag {atag}) refers to task {want}'):
            if res.status == 'violated' and res.model is not None:
                m = res.model
                am = [m.eval(a.t, model_completion=True).as_long() for a in amounts]
                if want is not None:
                    res.case = checker_demand_case(layout, am)
                elif atag < 0 and of_kind and is_ok == 0:
                    # an untagged activity of a multi-task job was accepted: all amounts equal, so that only the missing tag is wrong
                    res.case = checker_demand_case(layout, [max(am[0], 1)] * len(layout), untagged_kind=akind)
            break
        if not no_panic(ctx, res, env, st, what=name):
            break
        saw_ok = saw_ok or want is not None
        saw_err = saw_err or want is None
    if res.status == 'holds':
        res.witnesses = int(saw_ok) + int(saw_err)
        if not (saw_ok and saw_err):
            res.status, res.detail = 'inconclusive', f'vacuous: ok={saw_ok} err={saw_err}'
    res.time = time.time() - t0
    return res


def checker_demand_case(layout, am, untagged_kind=None):
    """Documents of a VALID solution that serves every task of the job (pickups first), loads written from the demand of the
    task each activity refers to (by tag): a correct checker accepts it."""
    KIND = {'p': 'pickup', 'd': 'delivery', 's': 'service', 'r': 'replacement'}
    LIST = {'p': 'pickups', 'd': 'deliveries', 's': 'services', 'r': 'replacements'}
    dynamic = 'p' in layout and 'd' in layout
    order = sorted(range(len(layout)), key=lambda i: (0 if layout[i] == 'p' else 1, i))
    job = {'id': 'job1'}
    for i, k in enumerate(layout):
        task = {'places': [{'location': {'index': i + 1}, 'duration': 0.0, 'tag': f'tag{i}'}]}
        if k != 's':
            task['demand'] = [am[i]]
        job.setdefault(LIST[k], []).append(task)
    kind_of = lambda k: {'p': 'dp' if dynamic else 'sp', 'd': 'dd' if dynamic else 'sd', 'r': 'spd', 's': 'none'}[k]
    load = sum(am[i] for i, k in enumerate(layout) if kind_of(k) in ('sd', 'spd'))
    ns = len(layout) + 2
    stops = [{'location': {'index': 0}, 'time': {'arrival': rfc3339(0), 'departure': rfc3339(0)}, 'distance': 0, 'load': [load],
              'activities': [{'jobId': 'departure', 'type': 'departure'}]}]
    for pos, i in enumerate(order, start=1):
        kd = kind_of(layout[i])
        load += am[i] if kd in ('sp', 'dp') else -am[i] if kd in ('sd', 'dd') else 0
        stops.append({'location': {'index': i + 1}, 'time': {'arrival': rfc3339(pos), 'departure': rfc3339(pos)}, 'distance': 0, 'load': [load],
                      'activities': [dict({'jobId': 'job1', 'type': KIND[layout[i]]}, **({} if layout[i] == untagged_kind else {'jobTag': f'tag{i}'}))]})
    load -= sum(am[i] for i, k in enumerate(layout) if kind_of(k) in ('sp', 'spd'))
    stops.append({'location': {'index': 0}, 'time': {'arrival': rfc3339(ns), 'departure': rfc3339(ns)}, 'distance': 0, 'load': [load],
                  'activities': [{'jobId': 'arrival', 'type': 'arrival'}]})
    problem = checker_docs(1, jobs=[job], capacity=[max(sum(am), 1)])
    n = len(layout) + 1
    return {'kind': 'checker', 'group': 'load', 'rule': 'load', 'dims': 1, 'problem': problem,
            'matrix': {'profile': 'car', 'travelTimes': [0] * (n * n), 'distances': [0] * (n * n)}, 'solution': solution_doc(stops, (0, ns))}


def ob_checker_assignment(ctx, n_unassigned=0, with_pickup=False):
    """C12 (assignment group): `check_vehicles` and `check_jobs_presence` (real MIR; hash maps / sets as association lists
    over the id strings) on a solution of two tours - vehicle of the second tour and both shift indices symbolic - with three
    activity slots (two in the first tour, one in the second) whose job id is a symbolic choice among the two jobs of the
    problem (`j0` with two tasks, `j1` with one) and an unknown id, plus `n_unassigned` unassigned entries with the same
    choice.  Each check answers Ok exactly when its documented rule holds: every tour names a known vehicle and no
    (vehicle, shift) drives two tours; every served job is known, lives in ONE tour (vehicle AND shift), has all its tasks
    served, no pickup after its delivery; the unassigned list has no duplicate, no unknown and no served job; and served +
    unassigned jobs are all the jobs of the plan."""
    name = f'checker_assignment[unassigned={n_unassigned}{",pickup" if with_pickup else ""}]'
    res = Result(name)
    res.bounds = ('problem: jobs j0 (two tasks: ' + ('pickup + delivery' if with_pickup else 'two deliveries') + '), j1 (one delivery), vehicles v1, v2; solution: tour 1 = (v1, shift s1), tour 2 = (v1|v2, shift s2), '
                  f'shifts symbolic in 0..1; 3 activity slots (2 + 1) and {n_unassigned} unassigned entries, each a symbolic choice among j0, j1 and an unknown id')
    t0 = time.time()
    fns = {'vehicles': ctx.prog.find_free('check_vehicles'), 'jobs_presence': ctx.prog.find_free('check_jobs_presence')}
    none = lambda ty: mk_option(False, ty=ty)
    IDS = ('j0', 'j1', 'jX')
    for cname, fn in fns.items():
        class Env(CheckerEnv):
            symbolic_maps = True

            def override(self, engine, st, callee, args, dest_ty):
                if callee.endswith('str>::ends_with') or callee.endswith('String::ends_with') or '::ends_with' in callee:
                    return BV(False)          # no id of the template ends with "_break"
                return super().override(engine, st, callee, args, dest_ty)

        env = Env(ctx.prog, ctx.layout, 16)
        eng, _ = ctx.engines(env)
        holder = {}

        def body(st, env=env, eng=eng, fn=fn, holder=holder):
            env.assumptions.clear()

            def task(kind):
                place = env.struct('problem::model::JobPlace', location=Opaque('location'), duration=FV.const(0), times=none('Option<Vec<Vec<String>>>'), tag=none('Option<String>'))
                return env.struct('problem::model::JobTask', places=VecV([place]), demand=none('Option<Vec<i32>>'), order=none('Option<i32>'))

            def job(jid, kinds):
                lst = lambda k: mk_option(True, VecV([task(k) for x in kinds if x == k]), ty='Option<Vec<JobTask>>') if k in kinds else none('Option<Vec<JobTask>>')
                return env.struct('problem::model::Job', id=Opaque(f'"{jid}"'), pickups=lst('p'), deliveries=lst('d'), replacements=none('Option<Vec<JobTask>>'),
                                  services=none('Option<Vec<JobTask>>'), skills=none('Option<JobSkills>'), value=none('Option<f64>'), group=none('Option<String>'),
                                  compatibility=none('Option<String>'))
            j0_kinds = ('p', 'd') if with_pickup else ('d', 'd')
            jobs = [job('j0', j0_kinds), job('j1', ('d',))]
            vt = Agg('struct', [VecV([Opaque('"v1"'), Opaque('"v2"')]) if f == 'vehicle_ids' else Opaque(f) for f in ctx.layout.fields('problem::model::VehicleType')], 'problem::model::VehicleType')
            fleet = Agg('struct', [VecV([vt]) if f == 'vehicles' else Opaque(f) for f in ctx.layout.fields('problem::model::Fleet')], 'problem::model::Fleet')
            plan = Agg('struct', [VecV(jobs) if f == 'jobs' else Opaque(f) for f in ctx.layout.fields('problem::model::Plan')], 'problem::model::Plan')
            problem = env.struct('problem::model::Problem', plan=plan, fleet=fleet, objectives=Opaque('objectives'))
            s1, s2 = env.sym_i('shift_1', 0, 1), env.sym_i('shift_2', 0, 1)
            vsel = z3.Int('vehicle_2')
            v2 = eng.choose(st, [(vsel == 1, 'v1'), (vsel == 2, 'v2'), (vsel == 3, 'v9')]) if cname == 'vehicles' else eng.choose(st, [(vsel == 1, 'v1'), (vsel == 2, 'v2')])
            slots = []
            for i in range(3):
                c = z3.Int(f'slot{i}_job')
                jid = eng.choose(st, [(c == k, IDS[k]) for k in range(3)] + ([(c == 3, None)] if i == 2 else []))     # the slot of the second tour may be empty
                ty = 'delivery'
                if with_pickup:
                    tsel = z3.Int(f'slot{i}_type')
                    ty = eng.choose(st, [(tsel == 0, 'delivery'), (tsel == 1, 'pickup')])
                slots.append((jid, ty))

            def act(jid, ty):
                return env.struct('solution::model::Activity', job_id=Opaque(f'"{jid}"'), activity_type=Opaque(f'"{ty}"'), location=none('Option<Location>'), time=none('Option<Interval>'),
                                  job_tag=none('Option<String>'), commute=none('Option<Commute>'))

            def stop(acts):
                z = FV.const(0)
                return EnumV('model::Stop', 0, {0: [env.struct('model::PointStop', location=Opaque('location'), time=env.struct('model::Schedule', arrival=time_str(z), departure=time_str(z)),
                                                               distance=IV(0, 'i64'), load=VecV([]), parking=none('Option<Interval>'), activities=VecV(acts))]})

            def tour(vid, shift, acts):
                stops = [stop([act('departure', 'departure')])] + [stop([a]) for a in acts] + [stop([act('arrival', 'arrival')])]
                return env.struct('solution::model::Tour', vehicle_id=Opaque(f'"{vid}"'), type_id=Opaque('"type1"'), shift_index=shift, stops=VecV(stops), statistic=Opaque('statistic'))
            tours = [tour('v1', s1, [act(*slots[0]), act(*slots[1])]), tour(v2, s2, [act(*slots[2])] if slots[2][0] is not None else [])]
            un = []
            for i in range(n_unassigned):
                c = z3.Int(f'unassigned{i}_job')
                un.append(eng.choose(st, [(c == k, IDS[k]) for k in range(3)]))
            unassigned = mk_option(True, VecV([env.struct('solution::model::UnassignedJob', job_id=Opaque(f'"{u}"'), reasons=VecV([])) for u in un]), ty='Option<Vec<UnassignedJob>>') \
                if n_unassigned else none('Option<Vec<UnassignedJob>>')
            solution = env.struct('solution::model::Solution', statistic=Opaque('overall'), tours=VecV(tours), unassigned=unassigned,
                                  violations=none('Option<Vec<Violation>>'), extras=none('Option<Extras>'))
            context = Agg('struct', [problem if f == 'problem' else solution if f == 'solution' else Opaque(f) for f in ctx.layout.fields('checker::CheckerContext')], 'checker::CheckerContext')
            holder.update(s1=s1, s2=s2)
            return (v2, slots, un, eng.exec_fn(st, fn, [RefV(Cell(context), 0)]))

        paths = eng.explore(body, max_paths=20000)
        res.paths += len(paths)
        res.functions |= eng.functions_used
        saw_ok = saw_err = False
        for st, out in paths:
            if out is None:
                if not no_panic(ctx, res, env, st, what=name):
                    break
                continue
            v2, slots, un, r = out
            s1, s2 = holder['s1'], holder['s2']
            same_tour = z3.And(z3.BoolVal(v2 == 'v1'), s1.t == s2.t)
            if cname == 'vehicles':
                rule = z3.And(z3.BoolVal(v2 in ('v1', 'v2')), z3.Not(same_tour))
            else:
                expected = {'j0': 2, 'j1': 1}
                conds = []
                used = []
                for jid, _ in slots:
                    if jid is not None and jid not in used:
                        used.append(jid)
                for jid in used:
                    where = [i for i, (x, _) in enumerate(slots) if x == jid]
                    # one tour: the slots 0,1 are in tour 1, slot 2 in tour 2
                    if any(i < 2 for i in where) and 2 in where:
                        conds.append(same_tour)
                    conds.append(z3.BoolVal(jid in expected and expected.get(jid) == len(where)))
                    if with_pickup and jid == 'j0':
                        # pickup index (position among the job activities of its tour) must not be after the delivery index
                        idx_in_tour = lambda i: (i + 1) if i < 2 else 1        # enumerate() over the tour's activities incl. departure
                        pk = [idx_in_tour(i) for i in where if slots[i][1] == 'pickup']
                        dl = [idx_in_tour(i) for i in where if slots[i][1] == 'delivery']
                        if dl and pk:
                            conds.append(z3.BoolVal(max(pk) <= min(dl)))
                conds.append(z3.BoolVal(len(set(un)) == len(un)))
                conds.append(z3.BoolVal(all(u in expected for u in un)))
                conds.append(z3.BoolVal(not any(u in used for u in un)))
                conds.append(z3.BoolVal(len(set(un) | set(used)) == len(expected)))
                rule = z3.And(*conds)
            is_ok = r.discr == 0
            if not decide_claim(ctx, res, env, st, is_ok == rule, what=f'{name}: {cname} on tours (v1, s1: {slots[:2]}), ({v2}, s2: {slots[2:]}), unassigned {un}'):
                if res.status == 'violated' and res.model is not None:
                    m = res.model
                    ev = lambda t: m.eval(t, model_completion=True).as_long()
                    res.case = {'kind': 'checker_assignment', 'rule': cname, 'vehicle_2': v2, 'shifts': [ev(s1.t), ev(s2.t)], 'slots': [list(x) for x in slots], 'unassigned': un,
                                'j0_kinds': ['pickup', 'delivery'] if with_pickup else ['delivery', 'delivery']}
                break
            if not no_panic(ctx, res, env, st, what=name):
                break
            saw_ok = saw_ok or witness(ctx, res, env, st, is_ok)
            saw_err = saw_err or witness(ctx, res, env, st, z3.Not(is_ok))
        if res.status != 'holds':
            break
        res.witnesses += int(saw_ok) + int(saw_err)
        if not (saw_ok and saw_err):
            res.status, res.detail = 'inconclusive', f'vacuous ({cname}): ok={saw_ok} err={saw_err}'
            break
    res.time = time.time() - t0
    return res


def ob_checker_limits(ctx, acts_per_stop, has_end=True):
    """C12 (limits group): `check_shift_limits`, `check_shift_time`, `check_recharge_limits` (real MIR) on one tour whose
    statistic, stop distances, stop times, recharge flags and whose vehicle's optional limits are symbolic: each check
    returns Ok exactly when the documented rule holds - distance <= max distance, duration <= max shift time, job
    activities (all activities minus departure/arrival) <= tour size; departure and arrival within the shift; between two
    recharge stops (and from the start) no more than the recharge distance limit is driven."""
    n = len(acts_per_stop)
    name = f'checker_limits[stops={"-".join(map(str, acts_per_stop))},{"closed" if has_end else "open"}]'
    res = Result(name)
    res.bounds = (f'one tour of {n} point stops with {acts_per_stop} activities; statistic distance/duration, stop distances and times integer-valued in [0,2^16]; '
                  f'limits each present or absent, values in [0,2^16] (tour size in [0,8]); one shift ({"with" if has_end else "without"} end); recharge flag per stop symbolic')
    t0 = time.time()
    checks = {'shift_limits': ctx.prog.find_free('check_shift_limits'), 'shift_time': ctx.prog.find_free('check_shift_time'),
              'recharge_limits': ctx.prog.find_free('check_recharge_limits')}
    for cname, fn in checks.items():
        env = CheckerEnv(ctx.prog, ctx.layout, 16)
        eng, _ = ctx.engines(env)
        holder = {}

        def body(st, env=env, eng=eng, fn=fn, holder=holder):
            env.assumptions.clear()
            S = lambda nme, hi=None: env.sym_f(nme, 0, hi)
            none = lambda ty: mk_option(False, ty=ty)
            dist_stat = env.sym_i('stat_distance', 0, 2 ** 16, 'i64')
            dur_stat = env.sym_i('stat_duration', 0, 2 ** 16, 'i64')
            z = lambda: IV(0, 'i64')
            statistic = env.struct('model::Statistic', cost=FV.const(0), distance=dist_stat, duration=dur_stat,
                                   times=env.struct('model::Timing', driving=z(), serving=z(), waiting=z(), break_time=z(), commuting=z(), parking=z()))
            stops, sd, arrs, deps, rech = [], [], [], [], []
            for i, na in enumerate(acts_per_stop):
                d = env.sym_i(f'stop{i}_distance', 0, 2 ** 16, 'i64')
                a, dp = S(f'stop{i}_arrival'), S(f'stop{i}_departure')
                r = z3.Bool(f'stop{i}_recharge')
                acts = []
                for j in range(na):
                    # the first activity of a stop may be a recharge (symbolic); the type string answers only the comparison with "recharge"
                    ty = Agg('struct', [BV(r)], 'StrIs:"recharge"') if j == 0 else Opaque('"delivery"')
                    acts.append(env.struct('solution::model::Activity', job_id=Opaque('"job"'), activity_type=ty, location=none('Option<Location>'), time=none('Option<Interval>'),
                                           job_tag=none('Option<String>'), commute=none('Option<Commute>')))
                stops.append(EnumV('model::Stop', 0, {0: [env.struct('model::PointStop', location=Opaque('location'), time=env.struct('model::Schedule', arrival=time_str(a), departure=time_str(dp)),
                                                                     distance=d, load=VecV([]), parking=none('Option<Interval>'), activities=VecV(acts))]}))
                sd.append(d); arrs.append(a); deps.append(dp); rech.append(r)
            tour = env.struct('solution::model::Tour', vehicle_id=Opaque('"v1"'), type_id=Opaque('"type1"'), shift_index=IV(0), stops=VecV(stops), statistic=statistic)
            solution = env.struct('solution::model::Solution', statistic=Opaque('overall'), tours=VecV([tour]), unassigned=none('Option<Vec<UnassignedJob>>'),
                                  violations=none('Option<Vec<Violation>>'), extras=none('Option<Extras>'))
            has_md, has_mt, has_ts, has_lim, has_rc = (z3.Bool(x) for x in ('has_max_distance', 'has_max_duration', 'has_tour_size', 'has_limits', 'has_recharges'))
            md, mt = S('max_distance'), S('max_duration')
            ts = env.sym_i('tour_size', 0, 8)
            limits = env.struct('problem::model::VehicleLimits', max_distance=mk_option(has_md, md, ty='Option<f64>'), max_duration=mk_option(has_mt, mt, ty='Option<f64>'),
                                tour_size=mk_option(has_ts, ts, ty='Option<usize>'))
            s_start, s_end = S('shift_start'), S('shift_end')
            rmax = S('recharge_max_distance')
            shift = env.struct('problem::model::VehicleShift',
                               start=env.struct('problem::model::ShiftStart', earliest=time_str(s_start), latest=none('Option<String>'), location=Opaque('location')),
                               end=mk_option(True, env.struct('problem::model::ShiftEnd', earliest=none('Option<String>'), latest=time_str(s_end), location=Opaque('location')),
                                             ty='Option<ShiftEnd>') if has_end else none('Option<ShiftEnd>'),
                               breaks=none('Option<Vec<VehicleBreak>>'), reloads=none('Option<Vec<VehicleReload>>'),
                               recharges=mk_option(has_rc, env.struct('problem::model::VehicleRecharges', max_distance=rmax, stations=VecV([])), ty='Option<VehicleRecharges>'))
            vo = ctx.layout.fields('problem::model::VehicleType')
            vehicle = Agg('struct', [Opaque(f) for f in vo], 'problem::model::VehicleType')
            vehicle.fields[vo.index('limits')] = mk_option(has_lim, limits, ty='Option<VehicleLimits>')
            vehicle.fields[vo.index('shifts')] = VecV([shift])
            env.vehicle, env.shift = vehicle, shift
            co_ = ctx.layout.fields('checker::CheckerContext')
            cctx = Agg('struct', [Opaque(f) for f in co_], 'checker::CheckerContext')
            cctx.fields[co_.index('solution')] = solution
            holder.update(dist_stat=dist_stat, dur_stat=dur_stat, sd=sd, arrs=arrs, deps=deps, rech=rech, md=md, mt=mt, ts=ts, s_start=s_start, s_end=s_end, rmax=rmax,
                          flags=(has_md, has_mt, has_ts, has_lim, has_rc))
            return eng.exec_fn(st, fn, [RefV(Cell(cctx), 0)])

        paths = eng.explore(body, max_paths=8000)
        res.paths += len(paths)
        res.functions |= eng.functions_used
        saw_ok = saw_err = False
        for st, out in paths:
            if out is None:
                if not no_panic(ctx, res, env, st, what=f'{name} {cname}'):
                    break
                continue
            h = holder
            has_md, has_mt, has_ts, has_lim, has_rc = h['flags']
            if cname == 'shift_limits':
                jobs_acts = max(sum(acts_per_stop) - (2 if has_end else 1), 0)
                rule = z3.Or(z3.Not(has_lim), z3.And(z3.Or(z3.Not(has_md), h['dist_stat'].t <= h['md'].v), z3.Or(z3.Not(has_mt), h['dur_stat'].t <= h['mt'].v),
                                                     z3.Or(z3.Not(has_ts), jobs_acts <= h['ts'].t)))
            elif cname == 'shift_time':
                rule = z3.And(h['deps'][0].v >= h['s_start'].v, h['arrs'][-1].v <= h['s_end'].v if has_end else z3.BoolVal(True))
            else:
                if n < 2:
                    rule = z3.BoolVal(True)
                else:
                    acc, oks = z3.IntVal(0), []
                    for i in range(1, n):
                        total = acc + (h['sd'][i].t - h['sd'][i - 1].t)
                        oks.append(total <= h['rmax'].v)
                        acc = z3.If(h['rech'][i], 0, total)
                    rule = z3.Or(z3.Not(has_rc), z3.And(*oks))
            is_ok = zs(out.discr == 0)
            if not decide_claim(ctx, res, env, st, is_ok == rule, what=f'{name}: {cname} accepts <=> documented rule holds'):
                if res.status == 'violated' and res.model is not None:
                    m = res.model
                    ev = lambda t: m.eval(t, model_completion=True).as_long()
                    tr = lambda b: z3.is_true(m.eval(b, model_completion=True))
                    lim = {}
                    if tr(has_lim):
                        if tr(has_md):
                            lim['maxDistance'] = float(ev(h['md'].v))
                        if tr(has_mt):
                            lim['maxDuration'] = float(ev(h['mt'].v))
                        if tr(has_ts):
                            lim['tourSize'] = ev(h['ts'].t)
                    stations = [{'location': {'index': i}, 'duration': 0.0} for i in range(n) if tr(h['rech'][i])] or [{'location': {'index': 0}, 'duration': 0.0}]
                    shift_extra = {'recharges': {'maxDistance': float(ev(h['rmax'].v)), 'stations': stations}} if tr(has_rc) else {}
                    stops_doc = []
                    for i, na in enumerate(acts_per_stop):
                        acts_doc = [{'jobId': 'dummy' if not (j == 0 and tr(h['rech'][i])) else 'recharge', 'type': 'recharge' if (j == 0 and tr(h['rech'][i])) else 'service'} for j in range(na)]
                        stops_doc.append({'location': {'index': i}, 'time': {'arrival': rfc3339(ev(h['arrs'][i].v)), 'departure': rfc3339(ev(h['deps'][i].v))},
                                          'distance': ev(h['sd'][i].t), 'load': [0], 'activities': acts_doc})
                    res.case = {'kind': 'checker', 'group': 'limits', 'rule': cname, 'closed': has_end,
                                'problem': checker_docs(n, vehicle_extra={'limits': lim} if tr(has_lim) else None, shift_extra=shift_extra,
                                                        shift=(ev(h['s_start'].v), ev(h['s_end'].v) if has_end else 30 * 86400), closed=has_end),
                                'matrix': {'profile': 'car', 'travelTimes': [0] * (n * n), 'distances': [0] * (n * n)},
                                'solution': solution_doc(stops_doc, (ev(h['dist_stat'].t), ev(h['dur_stat'].t)))}
                break
            if not no_panic(ctx, res, env, st, what=f'{name} {cname}'):
                break
            saw_ok = saw_ok or witness(ctx, res, env, st, is_ok)
            saw_err = saw_err or witness(ctx, res, env, st, z3.Not(is_ok))
        if res.status != 'holds':
            break
        res.witnesses += int(saw_ok) + int(saw_err)
        if not (saw_ok and (saw_err or (cname == 'recharge_limits' and n < 2))):
            res.status, res.detail = 'inconclusive', f'vacuous for {cname}: ok={saw_ok} err={saw_err}'
            break
    res.time = time.time() - t0
    return res


DEMAND_KIND_INDEX = {'None': 0, 'StaticPickup': 1, 'StaticDelivery': 2, 'StaticPickupDelivery': 3, 'DynamicPickup': 4, 'DynamicDelivery': 5}
DEMAND_KINDS = {'none': 0, 'sp': 1, 'sd': 2, 'spd': 3, 'dp': 4, 'dd': 5}      # capacity.rs DemandType order
KIND_TYPE = {'none': 'service', 'sp': 'pickup', 'sd': 'delivery', 'spd': 'replacement', 'dp': 'pickup', 'dd': 'delivery'}


def ob_checker_load(ctx, stops_kinds, dims=1):
    """C12 (vehicle load): `check_vehicle_load_assignment` (real MIR incl. `get_intervals`, `get_activities_from_interval`,
    all four folds; `MultiDimLoad` arithmetic, `can_fit` and equality from the MIR of vrp-core) on one tour: departure stop,
    one stop per entry of `stops_kinds` (each a tuple of demand kinds of its activities), arrival stop; reported stop loads,
    demand amounts and the vehicle capacity are symbolic.  Accepts exactly when (1) the load reported at the departure is
    the sum of the static deliveries, (2) every stop's load is the previous one minus deliveries plus pickups of its
    activities (replacement: unchanged), the arrival dropping the static pickups, and (3) every reported load fits the
    capacity in every dimension."""
    name = f'checker_load[{";".join(",".join(s) for s in stops_kinds)},dims={dims}]'
    res = Result(name)
    res.bounds = (f'one tour: departure + {len(stops_kinds)} stops with activities {stops_kinds} + arrival; {dims} dimension(s); amounts in [0,2^14], reported loads in '
                  f'[-2^15,2^15], capacity in [0,2^15]; no reloads; the demand of an activity (look-up through the job index) is an environment answer')
    t0 = time.time()
    fn = ctx.prog.find_free('check_vehicle_load_assignment')
    dt_enum = 'checker::capacity::DemandType'

    class Env(CheckerEnv):
        def override(self, engine, st, callee, args, dest_ty):
            if callee.endswith('get_demand'):
                act = deref_all(args[1])
                jid = self.field(act, 'solution::model::Activity', 'job_id')
                kind, amounts = self.demands[jid.name]
                return EnumV(dest_ty or 'Result', 0, {0: [Agg('tuple', [EnumV(dt_enum, DEMAND_KINDS[kind], {}), mdl(amounts, dims)], '')]})
            if callee.endswith('CheckerContext::get_activity_type'):
                return EnumV(dest_ty or 'Result', 0, {0: [EnumV('checker::ActivityType', 0, {})]})
            if callee.endswith('is_reload_stop'):
                return BV(False)
            return super().override(engine, st, callee, args, dest_ty)

        def default_of(self, engine, ty):
            base = re.sub(r'<.*$', '', ty).split('::')[-1]
            if base == 'MultiDimLoad':
                return mdl([], 0)
            return super().default_of(engine, ty)

    env = Env(ctx.prog, ctx.layout, 16)
    eng, _ = ctx.engines(env)

    def mdl(vals, size):
        vals = list(vals) + [IV(0, 'i32')] * (8 - len(vals))
        return env.struct('load::MultiDimLoad', load=Agg('array', [v if isinstance(v, IV) else IV(v, 'i32') for v in vals], '[i32; 8]'), size=IV(size))

    holder = {}

    def body(st):
        env.assumptions.clear()
        none = lambda ty: mk_option(False, ty=ty)
        env.demands = {}
        all_stops = [('departure',)] + [tuple(s) for s in stops_kinds] + [('arrival',)]
        stops, loads, acts_info = [], [], []
        dyn_amounts = None
        for i, kinds in enumerate(all_stops):
            load = [env.sym_i(f'stop{i}_load{d}', -2 ** 15, 2 ** 15, 'i32') for d in range(dims)]
            acts, info = [], []
            for j, kind in enumerate(kinds):
                jid = f'"a{i}_{j}"'
                if kind in ('departure', 'arrival'):
                    ty = kind
                    amounts = [IV(0, 'i32')] * dims
                    env.demands[jid] = ('none', amounts)
                elif kind in ('dp', 'dd'):
                    # the two tasks of ONE pickup-and-delivery job: equal amounts (a valid problem satisfies E1102)
                    ty = KIND_TYPE[kind]
                    dyn_amounts = dyn_amounts or [env.sym_i(f'dyn_amount{d}', 0, 2 ** 14, 'i32') for d in range(dims)]
                    amounts = dyn_amounts
                    env.demands[jid] = (kind, amounts)
                else:
                    ty = KIND_TYPE[kind]
                    amounts = [env.sym_i(f'a{i}_{j}_amount{d}', 0, 2 ** 14, 'i32') for d in range(dims)]
                    env.demands[jid] = (kind, amounts)
                info.append((kind, amounts))
                acts.append(env.struct('solution::model::Activity', job_id=Opaque(jid), activity_type=Opaque(f'"{ty}"'), location=none('Option<Location>'),
                                       time=none('Option<Interval>'), job_tag=none('Option<String>'), commute=none('Option<Commute>')))
            stops.append(EnumV('model::Stop', 0, {0: [env.struct('model::PointStop', location=Opaque('location'), time=Opaque('schedule'), distance=IV(0, 'i64'),
                                                                 load=VecV(list(load)), parking=none('Option<Interval>'), activities=VecV(acts))]}))
            loads.append(load)
            acts_info.append(info)
        tour = env.struct('solution::model::Tour', vehicle_id=Opaque('"v1"'), type_id=Opaque('"type1"'), shift_index=IV(0), stops=VecV(stops), statistic=Opaque('statistic'))
        solution = env.struct('solution::model::Solution', statistic=Opaque('overall'), tours=VecV([tour]), unassigned=none('Option<Vec<UnassignedJob>>'),
                              violations=none('Option<Vec<Violation>>'), extras=none('Option<Extras>'))
        capacity = [env.sym_i(f'capacity{d}', 0, 2 ** 15, 'i32') for d in range(dims)]
        vo = ctx.layout.fields('problem::model::VehicleType')
        vehicle = Agg('struct', [Opaque(f) for f in vo], 'problem::model::VehicleType')
        vehicle.fields[vo.index('capacity')] = VecV(list(capacity))
        env.vehicle, env.shift = vehicle, None
        co_ = ctx.layout.fields('checker::CheckerContext')
        cctx = Agg('struct', [Opaque(f) for f in co_], 'checker::CheckerContext')
        cctx.fields[co_.index('solution')] = solution
        holder.update(loads=loads, acts=acts_info, capacity=capacity)
        return eng.exec_fn(st, fn, [RefV(Cell(cctx), 0)])

    paths = eng.explore(body, max_paths=20000)
    res.paths = len(paths)
    res.functions |= eng.functions_used
    saw_ok = saw_err = False
    for st, out in paths:
        if out is None:
            if not no_panic(ctx, res, env, st, what=name):
                break
            continue
        loads, acts, capacity = holder['loads'], holder['acts'], holder['capacity']
        conds = []
        for d in range(dims):
            static_deliveries = sum([a[d].t for info in acts for k, a in info if k in ('sd', 'spd')], z3.IntVal(0))
            static_pickups = sum([a[d].t for info in acts for k, a in info if k in ('sp', 'spd')], z3.IntVal(0))
            conds.append(loads[0][d].t == static_deliveries)
            for i in range(1, len(loads)):
                change = z3.IntVal(0)
                for k, a in acts[i]:
                    if k in ('sd', 'dd'):
                        change = change - a[d].t
                    elif k in ('sp', 'dp'):
                        change = change + a[d].t
                    elif k == 'arrival':
                        change = change - static_pickups
                conds.append(loads[i][d].t == loads[i - 1][d].t + change)
            for i in range(len(loads)):
                conds.append(loads[i][d].t <= capacity[d].t)
        rule = z3.And(*conds)
        is_ok = zs(out.discr == 0)
        if not decide_claim(ctx, res, env, st, is_ok == rule, what=f'{name}: accepted <=> reported loads follow the demands and fit the capacity'):
            if res.status == 'violated' and res.model is not None:
                m = res.model
                ev = lambda t: m.eval(t, model_completion=True).as_long()
                ns = len(loads)
                jobs_doc, stops_doc = [], []
                dyn = {}
                for i, info in enumerate(acts):
                    acts_doc = []
                    for j, (k, a) in enumerate(info):
                        if k in ('departure', 'arrival'):
                            acts_doc.append({'jobId': k, 'type': k})
                            continue
                        jid = f'a{i}_{j}'
                        task = {'places': [{'location': {'index': i}, 'duration': 0.0}]}
                        if k != 'none':
                            task['demand'] = [ev(x.t) for x in a]
                        if k in ('dp', 'dd'):
                            dyn.setdefault('tasks', {})['pickups' if k == 'dp' else 'deliveries'] = [task]
                            acts_doc.append({'jobId': 'dyn', 'type': KIND_TYPE[k]})
                            continue
                        jobs_doc.append({'id': jid, {'sp': 'pickups', 'sd': 'deliveries', 'spd': 'replacements', 'none': 'services'}[k]: [task]})
                        acts_doc.append({'jobId': jid, 'type': KIND_TYPE[k]})
                    stops_doc.append({'location': {'index': i}, 'time': {'arrival': rfc3339(i), 'departure': rfc3339(i)}, 'distance': 0,
                                      'load': [ev(x.t) for x in loads[i]], 'activities': acts_doc})
                if dyn:
                    jobs_doc.append(dict({'id': 'dyn'}, **dyn['tasks']))
                res.case = {'kind': 'checker', 'group': 'load', 'rule': 'load', 'dims': dims,
                            'problem': checker_docs(ns, jobs=jobs_doc or None, capacity=[ev(c.t) for c in capacity]),
                            'matrix': {'profile': 'car', 'travelTimes': [0] * (ns * ns), 'distances': [0] * (ns * ns)},
                            'solution': solution_doc(stops_doc, (0, ns - 1))}
            break
        if not no_panic(ctx, res, env, st, what=name):
            break
        saw_ok = saw_ok or witness(ctx, res, env, st, z3.And(is_ok, *[loads[0][d].t > 0 for d in range(dims)]) if any(k in ('sd', 'spd') for info in acts for k, _ in info) else is_ok)
        saw_err = saw_err or witness(ctx, res, env, st, z3.Not(is_ok))
    if res.status == 'holds':
        res.witnesses = int(saw_ok) + int(saw_err)
        if not (saw_ok and saw_err):
            res.status, res.detail = 'inconclusive', f'vacuous: ok={saw_ok} err={saw_err}'
    res.time = time.time() - t0
    return res


def ob_checker_routing(ctx, n):
    """C12 (routing / statistics): `check_routing_rules` with `check_stop_statistic`, `check_tour_statistic`,
    `check_solution_statistic`, `skip_distance_check` (real MIR) on one tour of n point stops whose reported times,
    cumulative distances and statistics are symbolic and whose matrix is an uninterpreted function of the stop locations:
    accepted exactly when every reported arrival is within one unit of previous departure + matrix duration, every reported
    cumulative distance within one unit of the previous one + matrix distance (unless all reported distances are zero),
    the tour statistic within one unit of the last stop's distance and of last departure - first departure, and the
    solution statistic equals the tour's (distance, duration)."""
    name = f'checker_routing[stops={n}]'
    res = Result(name)
    res.bounds = (f'one tour of {n} point stops (one activity each, no transit stops); reported times, distances and statistics integer-valued in [0,2^16]; '
                  f'matrix = uninterpreted Dur/Dist(from index, to index) in [0,2^16]')
    t0 = time.time()
    fn = ctx.prog.find_free('check_routing_rules')

    class Env(CheckerEnv):
        def override(self, engine, st, callee, args, dest_ty):
            if callee.endswith('CheckerContext::get_vehicle_profile'):
                return EnumV(dest_ty or 'Result', 0, {0: [Opaque('profile')]})
            if callee.endswith('CheckerContext::get_location_index'):
                loc = deref_all(args[1])
                return EnumV(dest_ty or 'Result', 0, {0: [loc.payload[1][0]]})
            if callee.endswith('CheckerContext::get_matrix_data'):
                a, b = args[2], args[3]
                d, t = self.Dist(a.t, b.t), self.Dur(a.t, b.t)
                st.assumed.append(z3.And(d >= 0, d <= self.bound, t >= 0, t <= self.bound))
                return EnumV(dest_ty or 'Result', 0, {0: [Agg('tuple', [IV(d, 'i64'), IV(t, 'i64')], '')]})
            if callee.endswith('_print') or 'io::_print' in callee:
                return UnitV()
            return super().override(engine, st, callee, args, dest_ty)

        def default_of(self, engine, ty):
            base = re.sub(r'<.*$', '', ty).split('::')[-1]
            if base == 'Statistic':
                z = lambda: IV(0, 'i64')
                return self.struct('model::Statistic', cost=FV.const(0), distance=z(), duration=z(),
                                   times=self.struct('model::Timing', driving=z(), serving=z(), waiting=z(), break_time=z(), commuting=z(), parking=z()))
            return super().default_of(engine, ty)

    env = Env(ctx.prog, ctx.layout, 16)
    eng, _ = ctx.engines(env)
    holder = {}

    def body(st):
        env.assumptions.clear()
        none = lambda ty: mk_option(False, ty=ty)
        z = lambda: IV(0, 'i64')
        timing = lambda: env.struct('model::Timing', driving=z(), serving=z(), waiting=z(), break_time=z(), commuting=z(), parking=z())
        td, tdur = env.sym_i('tour_distance', 0, 2 ** 16, 'i64'), env.sym_i('tour_duration', 0, 2 ** 16, 'i64')
        sdist, sdur = env.sym_i('solution_distance', 0, 2 ** 16, 'i64'), env.sym_i('solution_duration', 0, 2 ** 16, 'i64')
        stops, locs, arrs, deps, dists = [], [], [], [], []
        for i in range(n):
            loc = env.sym_i(f'loc{i}', 0, 1000)
            a, d = env.sym_f(f'arrival{i}'), env.sym_f(f'departure{i}')
            dist = env.sym_i(f'distance{i}', 0, 2 ** 16, 'i64')
            act = env.struct('solution::model::Activity', job_id=Opaque(f'"a{i}"'), activity_type=Opaque('"delivery"'), location=none('Option<Location>'), time=none('Option<Interval>'),
                             job_tag=none('Option<String>'), commute=none('Option<Commute>'))
            stops.append(EnumV('model::Stop', 0, {0: [env.struct('model::PointStop', location=EnumV('format::Location', 1, {1: [loc]}),
                                                                 time=env.struct('model::Schedule', arrival=time_str(a), departure=time_str(d)),
                                                                 distance=dist, load=VecV([]), parking=none('Option<Interval>'), activities=VecV([act]))]}))
            locs.append(loc); arrs.append(a); deps.append(d); dists.append(dist)
        tour = env.struct('solution::model::Tour', vehicle_id=Opaque('"v1"'), type_id=Opaque('"type1"'), shift_index=IV(0), stops=VecV(stops),
                          statistic=env.struct('model::Statistic', cost=FV.const(0), distance=td, duration=tdur, times=timing()))
        solution = env.struct('solution::model::Solution', statistic=env.struct('model::Statistic', cost=FV.const(0), distance=sdist, duration=sdur, times=timing()),
                              tours=VecV([tour]), unassigned=none('Option<Vec<UnassignedJob>>'), violations=none('Option<Vec<Violation>>'), extras=none('Option<Extras>'))
        co_ = ctx.layout.fields('checker::CheckerContext')
        cctx = Agg('struct', [Opaque(f) for f in co_], 'checker::CheckerContext')
        cctx.fields[co_.index('solution')] = solution
        cctx.fields[co_.index('matrices')] = mk_option(True, VecV([Opaque('matrix')]), ty='Option<Vec<Matrix>>')
        env.vehicle = env.shift = None
        holder.update(td=td, tdur=tdur, sdist=sdist, sdur=sdur, locs=locs, arrs=arrs, deps=deps, dists=dists)
        return eng.exec_fn(st, fn, [RefV(Cell(cctx), 0)])

    paths = eng.explore(body, max_paths=20000)
    res.paths = len(paths)
    res.functions |= eng.functions_used
    saw_ok = saw_err = False
    near = lambda a, b: z3.And(a - b <= 1, b - a <= 1)
    for st, out in paths:
        h = holder
        dom = []
        for i in range(1, n):
            d, t = env.Dist(h['locs'][i - 1].t, h['locs'][i].t), env.Dur(h['locs'][i - 1].t, h['locs'][i].t)
            dom.append(z3.And(d >= 0, d <= env.bound, t >= 0, t <= env.bound))
        if out is None:
            if not no_panic(ctx, res, env, st, dom, what=name):
                break
            continue
        skip = z3.And(*[x.t == 0 for x in h['dists']])
        conds = []
        for i in range(1, n):
            conds.append(near(h['deps'][i - 1].v + env.Dur(h['locs'][i - 1].t, h['locs'][i].t), h['arrs'][i].v))
            prev_d = h['dists'][i - 1].t if i > 1 else z3.IntVal(0)
            conds.append(z3.Or(skip, near(prev_d + env.Dist(h['locs'][i - 1].t, h['locs'][i].t), h['dists'][i].t)))
        last_d = h['dists'][-1].t if n > 1 else z3.IntVal(0)
        conds.append(z3.Or(skip, near(last_d, h['td'].t)))
        conds.append(near(h['deps'][-1].v - h['deps'][0].v, h['tdur'].t))
        conds.append(z3.And(h['sdist'].t == h['td'].t, h['sdur'].t == h['tdur'].t))
        rule = z3.And(*conds)
        is_ok = zs(out.discr == 0)
        if not decide_claim(ctx, res, env, st, is_ok == rule, dom, what=f'{name}: accepted <=> reported times / distances / statistics match the matrix within one unit'):
            if res.status == 'violated' and res.model is not None:
                m = res.model
                ev = lambda t: m.eval(t, model_completion=True).as_long()
                durs = [[0 if i == j else ev(env.Dur(h['locs'][i].t, h['locs'][j].t)) for j in range(n)] for i in range(n)]
                dsts = [[0 if i == j else ev(env.Dist(h['locs'][i].t, h['locs'][j].t)) for j in range(n)] for i in range(n)]
                same = len({ev(l.t) for l in h['locs']}) < n
                stops_doc = [{'location': {'index': i}, 'time': {'arrival': rfc3339(ev(h['arrs'][i].v)), 'departure': rfc3339(ev(h['deps'][i].v))},
                              'distance': ev(h['dists'][i].t), 'load': [0], 'activities': [{'jobId': 'dummy', 'type': 'service'}]} for i in range(n)]
                if not same:
                    res.case = {'kind': 'checker', 'group': 'routing', 'rule': 'routing',
                                'problem': checker_docs(n), 'matrix': {'profile': 'car', 'travelTimes': [x for r in durs for x in r], 'distances': [x for r in dsts for x in r]},
                                'solution': solution_doc(stops_doc, (ev(h['td'].t), ev(h['tdur'].t)), overall=(ev(h['sdist'].t), ev(h['sdur'].t)))}
            break
        if not no_panic(ctx, res, env, st, dom, what=name):
            break
        saw_ok = saw_ok or witness(ctx, res, env, st, z3.And(is_ok, z3.Not(skip)), dom)
        saw_err = saw_err or witness(ctx, res, env, st, z3.Not(is_ok), dom)
    if res.status == 'holds':
        res.witnesses = int(saw_ok) + int(saw_err)
        if not (saw_ok and saw_err):
            res.status, res.detail = 'inconclusive', f'vacuous: ok={saw_ok} err={saw_err}'
    res.time = time.time() - t0
    return res


# ---------------------------------------------------------------------------------------------------------------------
# checker replay documents (problem / matrix / solution JSON) from solver models

def checker_docs(n_locations, vehicle_extra=None, shift_extra=None, jobs=None, capacity=(10,), shift=(0, 30 * 86400), closed=True):
    far = rfc3339(shift[1])
    shift_doc = {'start': {'earliest': rfc3339(shift[0]), 'location': {'index': 0}}}
    if closed:
        shift_doc['end'] = {'latest': far, 'location': {'index': 0}}
    shift_doc.update(shift_extra or {})
    vehicle = {'typeId': 'type1', 'vehicleIds': ['v1'], 'profile': {'matrix': 'car'}, 'costs': {'fixed': 1.0, 'distance': 1.0, 'time': 1.0},
               'shifts': [shift_doc], 'capacity': list(capacity)}
    vehicle.update(vehicle_extra or {})
    jobs = list(jobs or [{'id': 'dummy', 'services': [{'places': [{'location': {'index': max(n_locations - 1, 0)}, 'duration': 0.0}]}]}])
    # the routing index needs every location index 0..n-1 to occur in the problem
    jobs += [{'id': f'fill{i}', 'services': [{'places': [{'location': {'index': i}, 'duration': 0.0}]}]} for i in range(1, n_locations)]
    problem = {'plan': {'jobs': jobs}, 'fleet': {'vehicles': [vehicle], 'profiles': [{'name': 'car'}]}}
    return problem


def solution_doc(stops, statistic, overall=None):
    times0 = {'driving': 0, 'serving': 0, 'waiting': 0, 'break': 0, 'commuting': 0, 'parking': 0}
    stat = {'cost': 0.0, 'distance': statistic[0], 'duration': statistic[1], 'times': times0}
    ov = {'cost': 0.0, 'distance': (overall or statistic)[0], 'duration': (overall or statistic)[1], 'times': times0}
    return {'statistic': ov, 'tours': [{'vehicleId': 'v1', 'typeId': 'type1', 'shiftIndex': 0, 'stops': stops, 'statistic': stat}]}


# ---------------------------------------------------------------------------------------------------------------------
# C16 (pragmatic level) / C10 totality: routing matrix documents -> MatrixData

def ob_pragmatic_matrix(ctx, n, m, n_tt=None):
    """C16 at the pragmatic reader (and C10 totality): the per-matrix step of `create_transport_costs` (real MIR of the
    closure, `MatrixData::new` from vrp-core) for a matrix document with n travel times / distances and m error codes
    (m = None: no `errorCodes`): the produced routing data has n entries per table and entry i is the supplied value, or
    -1 in both tables when error code i is positive - or the document is rejected (Err -> documented code E0002)."""
    n_tt = n if n_tt is None else n_tt
    name = f'pragmatic_matrix[entries={n},codes={m}{",travelTimes=" + str(n_tt) if n_tt != n else ""}]'
    res = Result(name)
    res.bounds = f'one matrix document: {n_tt} travel times and {n} distances (symbolic i64 in [0,2^31]), {"no" if m is None else m} error codes (symbolic in [-2,2])'
    t0 = time.time()
    cands = [f for nme, f in ctx.prog.functions.items() if nme.startswith('fleet_reader::create_transport_costs::{closure#') and nme.count('{closure#') == 1
             and re.search(r'_2: \(usize, (?:std::option::)?Option<(?:std::string::)?String>, &[\w:]*Matrix\)\) -> (?:std::result::)?Result<', f.header)]
    if len(cands) != 1:
        raise Inconclusive('the per-matrix closure of create_transport_costs was not found')
    fn = cands[0]

    class Env(drivers.Env):
        def override(self, engine, st, callee, args, dest_ty):
            if 'core::fmt::rt::' in callee or 'fmt::Arguments' in callee or callee.startswith('Arguments::'):
                return Opaque('fmt argument')
            if 'fmt::format' in callee or 'format_inner' in callee or callee in ('format', 'std::fmt::format', 'alloc::fmt::format'):
                return Opaque('"formatted text"')
            if callee.split('::<')[0].endswith('with_capacity'):
                return VecV([])
            return super().override(engine, st, callee, args, dest_ty)

    env = Env(ctx.prog, ctx.layout, 31)
    eng, _ = ctx.engines(env)
    holder = {}

    def body(st):
        env.assumptions.clear()
        tt = [env.sym_i(f'tt{i}', 0, 2 ** 31, 'i64') for i in range(n_tt)]
        ds = [env.sym_i(f'dist{i}', 0, 2 ** 31, 'i64') for i in range(n)]
        codes = [env.sym_i(f'code{i}', -2, 2, 'i64') for i in range(m or 0)]
        matrix = env.struct('problem::model::Matrix', profile=mk_option(True, Opaque('"car"'), ty='Option<String>'), timestamp=mk_option(False, ty='Option<String>'),
                            travel_times=VecV(list(tt)), distances=VecV(list(ds)),
                            error_codes=mk_option(True, VecV(list(codes)), ty='Option<Vec<i64>>') if m is not None else mk_option(False, ty='Option<Vec<i64>>'))
        holder.update(tt=tt, ds=ds, codes=codes)
        arg = Agg('tuple', [IV(0), mk_option(False, ty='Option<String>'), RefV(Cell(matrix), 0)], '')
        return eng.exec_fn(st, fn, [RefV(Cell(Agg('closure', [], 'matrix step', fn_name='matrix step')), 0, True), arg])

    paths = eng.explore(body, max_paths=8000)
    res.paths = len(paths)
    res.functions |= eng.functions_used
    saw_ok = saw_rej = False

    def case_of(model):
        ev = (lambda t: model.eval(t, model_completion=True).as_long()) if model is not None else (lambda t: 1)
        size = int(round(n ** 0.5))
        doc = {'profile': 'car', 'travelTimes': [ev(x.t) for x in holder['tt']], 'distances': [ev(x.t) for x in holder['ds']]}
        if m is not None:
            doc['errorCodes'] = [ev(x.t) for x in holder['codes']]
        jobs = [{'id': f'job{i}', 'services': [{'places': [{'location': {'index': i}, 'duration': 0.0}]}]} for i in range(1, size)] or \
            [{'id': 'job0', 'services': [{'places': [{'location': {'index': 0}, 'duration': 0.0}]}]}]
        problem = checker_docs(1, jobs=jobs)
        return {'kind': 'matrix_read', 'problem': problem, 'matrix': doc, 'size': size}

    for st, out in paths:
        if out is None:
            if not no_panic(ctx, res, env, st, what=name):
                if res.status == 'violated':
                    res.case = case_of(getattr(res, 'model', None))
                break
            continue
        if out.variant() is None:
            res.status, res.detail = 'inconclusive', 'symbolic result variant'
            break
        if out.variant() == 1:
            saw_rej = True      # rejected: becomes the documented E0002
            continue
        md = out.payload[0][0]
        durs = env.field(md, 'costs::MatrixData', 'durations').items
        dsts = env.field(md, 'costs::MatrixData', 'distances').items
        if len(durs) < n or len(dsts) < n:
            res.status = 'violated'
            res.detail = f'{name}: the routing data produced from {n} entries and {m} error codes has {len(durs)} durations / {len(dsts)} distances (later look-ups index past the end)'
            res.counterexample = {'what': res.detail}
            v, model, _ = ctx.decider.check(list(env.assumptions) + list(st.assumed) + list(st.pc), cross=False)
            res.case = case_of(model if v == 'sat' else None)
            break
        claims = []
        if len(holder['tt']) < n and m is None:
            continue        # without error codes the two tables are copied independently; the provider constructor rejects unequal lengths (C16 Kani harnesses)
        for i in range(n):
            bad = holder['codes'][i].t > 0 if m is not None else z3.BoolVal(False)
            claims.append(z3.And(z3.Not(durs[i].m), z3.Not(dsts[i].m)))
            if i >= len(holder['tt']):
                claims.append(z3.And(bad, durs[i].v == -1, dsts[i].v == -1))      # a missing travel time is only acceptable under an error code
                continue
            claims.append(durs[i].v == z3.If(bad, -1, holder['tt'][i].t))
            claims.append(dsts[i].v == z3.If(bad, -1, holder['ds'][i].t))
        if not decide_claim(ctx, res, env, st, z3.And(*claims), what=f'{name}: entry i = supplied value, or -1 in both tables when error code i > 0'):
            if res.status == 'violated' and res.model is not None:
                res.case = case_of(res.model)
            break
        if not no_panic(ctx, res, env, st, what=name):
            break
        saw_ok = True
    if res.status == 'holds':
        res.witnesses = int(saw_ok) + int(saw_rej)
        if (not saw_ok and (m is None or m == n)) or not (saw_ok or saw_rej):
            res.status, res.detail = 'inconclusive', 'vacuous: no accepted path'
    res.time = time.time() - t0
    return res


# ---------------------------------------------------------------------------------------------------------------------
# C03: the place tag reported with an activity

def ob_job_tag(ctx, distinguishable):
    """C03 (place tag): `get_job_tag` (real MIR; `TimeSpan::to_time_window`, `TimeWindow::intersects` from vrp-core) for
    a task with two alternative places (symbolic location and time window each, tags "a" and "b") and an activity that
    uses place u (symbolic) with exactly that place's location and window: the reported tag is the tag of place u.
    `distinguishable` = how the two places are assumed to differ: 'location' (different locations), 'disjoint' (same or
    different location, non-intersecting windows), 'any' (only: not identical in location AND window) - the last one
    is the property as stated; the first two are the conditions under which the matching by window INTERSECTION is exact."""
    name = f'job_tag[{distinguishable}]'
    res = Result(name)
    res.bounds = 'one task with two tagged places (one location, one absolute time window each; symbolic); the activity carries the data of the used place; times in [0,2^16]'
    t0 = time.time()
    fn = ctx.prog.find_free('get_job_tag')
    env = drivers.Env(ctx.prog, ctx.layout, 16)
    eng, _ = ctx.engines(env)
    holder = {}

    def body(st):
        env.assumptions.clear()
        places, info = [], []
        for i in range(2):
            loc = env.sym_i(f'place{i}_loc', 0, 1000)
            s, e = env.sym_f(f'place{i}_start'), env.sym_f(f'place{i}_end')
            env.assumptions.append(s.v <= e.v)
            places.append(env.struct('jobs::Place', location=mk_option(True, loc, ty='Option<usize>'), duration=FV.const(0),
                                     times=VecV([EnumV('domain::TimeSpan', 0, {0: [env.time_window(s, e)]})])))
            info.append((loc, s, e))
        tags = VecV([Agg('tuple', [IV(0), Opaque('"a"')], ''), Agg('tuple', [IV(1), Opaque('"b"')], '')])
        single = env.struct('jobs::Single', places=VecV(places), dimens=StateV({'place_tags': tags}))
        used = z3.Bool('used_second')
        pick = lambda a, b: zs(z3.If(used, b, a))
        loc_u = IV(pick(info[0][0].t, info[1][0].t))
        tw_u = env.time_window(FV(False, pick(info[0][1].v, info[1][1].v)), FV(False, pick(info[0][2].v, info[1][2].v)))
        holder.update(info=info, used=used)
        arg = Agg('tuple', [loc_u, Agg('tuple', [tw_u, FV.const(0)], '')], '')
        return eng.exec_fn(st, fn, [RefV(Cell(single), 0), arg])

    paths = eng.explore(body)
    res.paths = len(paths)
    res.functions |= eng.functions_used
    saw = False
    for st, out in paths:
        if out is None:
            if not no_panic(ctx, res, env, st, what=name):
                break
            continue
        (l0, s0, e0), (l1, s1, e1) = holder['info']
        used = holder['used']
        if distinguishable == 'location':
            pre = l0.t != l1.t
        elif distinguishable == 'disjoint':
            pre = z3.Or(e0.v < s1.v, e1.v < s0.v)
        else:
            pre = z3.Not(z3.And(l0.t == l1.t, s0.v == s1.v, e0.v == e1.v))
        var = out.variant()
        if var is None:
            res.status, res.detail = 'inconclusive', 'symbolic option'
            break
        if var == 0:
            claim = z3.BoolVal(False)       # a tagged place was used: some tag must be reported
        else:
            tag = deref_all(out.payload[1][0])
            claim = z3.BoolVal(tag.name == '"b"') == used
        if not decide_claim(ctx, res, env, st, claim, [pre], what=f'{name}: reported tag == tag of the place that was used'):
            if res.status == 'violated' and res.model is not None:
                m = res.model
                ev = lambda t: m.eval(t, model_completion=True).as_long()
                res.case = {'kind': 'job_tag', 'places': [{'loc': ev(l.t), 'start': ev(s.v), 'end': ev(e.v)} for l, s, e in holder['info']],
                            'used': 1 if z3.is_true(m.eval(used, model_completion=True)) else 0}
            break
        if not no_panic(ctx, res, env, st, [pre], what=name):
            break
        saw = saw or witness(ctx, res, env, st, used, [pre])
    if res.status == 'holds':
        res.witnesses = int(saw)
        if not saw:
            res.status, res.detail = 'inconclusive', 'vacuous'
    res.time = time.time() - t0
    return res


def ob_place_tags_read(ctx, n_places):
    """C03 (place tag, reader + writer side together): `get_single` of the job reader (real MIR) turns a task with
    `n_places` alternative places - each with or without a tag, symbolically - into a core `Single`; `get_job_tag` (real MIR)
    is then asked for the tag of an activity that uses place u (symbolic) with exactly that place's location and window.  The
    reported tag is the tag the DOCUMENT gives place u (none if that place is untagged); the places keep their order, location,
    duration and windows.  Places at pairwise different locations (so the matching by location is unambiguous)."""
    name = f'place_tags_read[places={n_places}]'
    res = Result(name)
    res.bounds = f'one task with {n_places} alternative places at pairwise different locations; tag present/absent per place symbolic; one absolute window each; times in [0,2^16]'
    t0 = time.time()
    get_single = ctx.prog.find_free('get_single')
    get_job_tag = ctx.prog.find_free('get_job_tag')

    class Env(drivers.Env):
        def override(self, engine, st, callee, args, dest_ty):
            base = callee.split('::<')[0]
            if base.endswith('CoordIndex::get_by_loc'):
                loc = deref_all(args[1])
                return mk_option(True, loc.payload[1][0], ty=dest_ty)
            return super().override(engine, st, callee, args, dest_ty)

    env = Env(ctx.prog, ctx.layout, 16)
    eng, _ = ctx.engines(env)
    holder = {}
    TAGS = ['"t%d"' % i for i in range(n_places)]

    def body(st):
        env.assumptions.clear()
        data, info = [], []
        for i in range(n_places):
            loc = env.sym_i(f'place{i}_loc', 0, 1000)
            s_, e_ = env.sym_f(f'place{i}_start'), env.sym_f(f'place{i}_end')
            env.assumptions.append(s_.v <= e_.v)
            tagged = z3.Bool(f'place{i}_tagged')
            tag = EnumV('Option<String>', zs(z3.If(tagged, 1, 0)), {1: [Opaque(TAGS[i])]})
            location = mk_option(True, EnumV('format::Location', 1, {1: [loc]}), ty='Option<Location>')
            times = VecV([EnumV('domain::TimeSpan', 0, {0: [env.time_window(s_, e_)]})])
            data.append(Agg('tuple', [location, FV.const(0), times, tag], ''))
            info.append((loc, s_, e_, tagged))
        for i in range(n_places):
            for j in range(i):
                env.assumptions.append(info[i][0].t != info[j][0].t)
        single = eng.exec_fn(st, get_single, [VecV(data), RefV(Cell(Opaque('coord_index')), 0)])
        used = z3.Int('used_place')
        u = eng.choose(st, [(used == i, i) for i in range(n_places)])
        loc_u, s_u, e_u, _ = info[u]
        arg = Agg('tuple', [loc_u, Agg('tuple', [env.time_window(s_u, e_u), FV.const(0)], '')], '')
        holder.update(info=info, single=single, u=u)
        return (u, single, eng.exec_fn(st, get_job_tag, [RefV(Cell(single), 0), arg]))

    paths = eng.explore(body, max_paths=4000)
    res.paths = len(paths)
    res.functions |= eng.functions_used
    saw_t = saw_u = False
    for st, out in paths:
        if out is None:
            if not no_panic(ctx, res, env, st, what=name):
                break
            continue
        u, single, got = out
        info = holder['info']
        var = got.variant()
        if var is None:
            res.status, res.detail = 'inconclusive', 'symbolic option'
            break
        tagged_u = info[u][3]
        if var == 0:
            claim = z3.Not(tagged_u)
        else:
            tag = deref_all(got.payload[1][0])
            claim = z3.And(tagged_u, z3.BoolVal(tag.name == TAGS[u]))
        # the places of the core job are the document's places, in order
        places = env.field(single, 'jobs::Single', 'places').items
        same = len(places) == n_places
        conds = [claim, z3.BoolVal(same)]
        if same:
            for i, pl in enumerate(places):
                loc = env.field(pl, 'jobs::Place', 'location')
                conds.append(z3.And(loc.discr == 1, loc.payload[1][0].t == info[i][0].t) if 1 in loc.payload else z3.BoolVal(False))
        if not decide_claim(ctx, res, env, st, z3.And(*conds), what=f'{name}: reported tag == tag the document gives the used place {u}'):
            if res.status == 'violated' and res.model is not None:
                m = res.model
                ev = lambda t: m.eval(t, model_completion=True).as_long()
                res.case = {'kind': 'job_tag', 'places': [{'loc': ev(l.t), 'start': ev(a.v), 'end': ev(b.v), 'tagged': bool(z3.is_true(m.eval(tg, model_completion=True)))}
                                                          for l, a, b, tg in info], 'used': u}
            break
        if not no_panic(ctx, res, env, st, what=name):
            break
        saw_t = saw_t or witness(ctx, res, env, st, tagged_u)
        saw_u = saw_u or witness(ctx, res, env, st, z3.Not(tagged_u))
    if res.status == 'holds':
        res.witnesses = int(saw_t) + int(saw_u)
        if not (saw_t and saw_u):
            res.status, res.detail = 'inconclusive', 'vacuous'
    res.time = time.time() - t0
    return res


def ob_match_place(ctx):
    """C03 (place tag, read-back side): `match_place` of the initial-solution reader (real MIR) for a task with two tagged
    alternative places and an activity of that job that carries the tag of place u (symbolic), place u's location, and a
    visit interval inside place u's window: the reconstructed place is place u (index, duration) - i.e. the tag the
    writer reports leads back to the place it was taken from, also when the other place matches by location and time."""
    name = 'match_place'
    res = Result(name)
    res.bounds = 'one task, two tagged places (symbolic location, duration, absolute window); tagged activity with a symbolic visit interval inside the used window; times in [0,2^16]'
    t0 = time.time()
    fn = ctx.prog.find_free('match_place')
    env = drivers.Env(ctx.prog, ctx.layout, 16)
    eng, _ = ctx.engines(env)
    holder = {}

    def body(st):
        env.assumptions.clear()
        places, info = [], []
        for i in range(2):
            loc = env.sym_i(f'place{i}_loc', 0, 1000)
            s, e, d = env.sym_f(f'place{i}_start'), env.sym_f(f'place{i}_end'), env.sym_f(f'place{i}_duration')
            env.assumptions.append(s.v <= e.v)
            places.append(env.struct('jobs::Place', location=mk_option(True, loc, ty='Option<usize>'), duration=d,
                                     times=VecV([EnumV('domain::TimeSpan', 0, {0: [env.time_window(s, e)]})])))
            info.append((loc, s, e, d))
        tags = VecV([Agg('tuple', [IV(0), Opaque('"a"')], ''), Agg('tuple', [IV(1), Opaque('"b"')], '')])
        single = ArcV(Cell(env.struct('jobs::Single', places=VecV(places), dimens=StateV({'place_tags': tags, 'job_id': Opaque('"job1"')}))))
        vs, ve = env.sym_f('visit_start'), env.sym_f('visit_end')
        env.assumptions.append(vs.v <= ve.v)
        holder.update(info=info, vs=vs, ve=ve)
        outs = []
        for u in range(2):
            actx = env.struct('activity_matcher::ActivityContext', route_start_time=FV.const(0), location=info[u][0], time=env.time_window(vs, ve),
                              act_type=RefV(Cell(Opaque('"service"')), 0), job_id=RefV(Cell(Opaque('"job1"')), 0),
                              tag=mk_option(True, RefV(Cell(Opaque('"%s"' % 'ab'[u])), 0), ty='Option<&String>'))
            outs.append(eng.exec_fn(st, fn, [RefV(Cell(single), 0), BV(True), RefV(Cell(actx), 0)]))
        return outs

    paths = eng.explore(body, max_paths=4000)
    res.paths = len(paths)
    res.functions |= eng.functions_used
    saw = False
    for st, outs in paths:
        if outs is None:
            if not no_panic(ctx, res, env, st, what=name):
                break
            continue
        info, vs, ve = holder['info'], holder['vs'], holder['ve']
        claims = []
        for u, out in enumerate(outs):
            loc, s, e, d = info[u]
            inside = z3.And(s.v <= vs.v, ve.v <= e.v)
            if out.variant() is None:
                res.status, res.detail = 'inconclusive', 'symbolic option'
                break
            if out.variant() == 0:
                claims.append(z3.Not(inside))
            else:
                place = out.payload[1][0]
                idx = env.field(place, 'route::Place', 'idx')
                dur = env.field(place, 'route::Place', 'duration')
                claims.append(z3.Implies(inside, z3.And(idx.t == u, dur.v == d.v)))
        if res.status != 'holds':
            break
        if not decide_claim(ctx, res, env, st, z3.And(*claims), what=f'{name}: a tagged activity inside the window of its place is matched to that place'):
            if res.status == 'violated' and res.model is not None:
                m = res.model
                ev = lambda t: m.eval(t, model_completion=True).as_long()
                places = [{'loc': ev(l.t), 'start': ev(s.v), 'end': ev(e.v), 'duration': ev(d.v)} for l, s, e, d in info]
                # which of the two activities is the failing one
                for u in range(2):
                    if not z3.is_true(m.eval(claims[u], model_completion=True)):
                        res.case = {'kind': 'match_place', 'places': places, 'used': u, 'visit': [ev(vs.v), ev(ve.v)]}
                        break
            break
        if not no_panic(ctx, res, env, st, what=name):
            break
        saw = saw or witness(ctx, res, env, st, z3.And(info[0][0].t == info[1][0].t, info[1][1].v <= vs.v, ve.v <= info[1][2].v, info[0][1].v <= vs.v, ve.v <= info[0][2].v))
    if res.status == 'holds':
        res.witnesses = int(saw)
        if not saw:
            res.status, res.detail = 'inconclusive', 'vacuous: the ambiguous situation was not reached'
    res.time = time.time() - t0
    return res


# ---------------------------------------------------------------------------------------------------------------------
# C10: E1504 - location indices vs. matrix size

def ob_location_index_rule(ctx, size):
    """C10 (E1504, and totality behind it): `CoordIndex::new` (real MIR; its hash maps modelled as association lists with
    symbolic keys) followed by `check_e1504_index_size_mismatch` for a problem whose locations are matrix-index references
    with symbolic indices (vehicle start, one job place) and a routing matrix of size x size: the rule passes exactly when
    'max location index + 1 == matrix size' as documented - in particular every index that passes is inside the matrix."""
    name = f'location_index_rule[matrix={size}x{size}]'
    res = Result(name)
    res.bounds = f'vehicle start and one job place given as matrix-index references with symbolic indices in [0,12]; one {size}x{size} matrix'
    t0 = time.time()
    new_fn = ctx.prog.find_method('CoordIndex', 'new')
    rule = ctx.prog.find_free('check_e1504_index_size_mismatch')
    if len(new_fn) != 1:
        raise Inconclusive('CoordIndex::new not found')

    class Env(drivers.Env):
        symbolic_maps = True

        def override(self, engine, st, callee, args, dest_ty):
            if 'core::fmt::rt::' in callee or 'fmt::Arguments' in callee or callee.startswith('Arguments::'):
                return Opaque('fmt argument')
            if 'fmt::format' in callee or 'format_inner' in callee or callee in ('format', 'std::fmt::format', 'alloc::fmt::format'):
                return Opaque('"formatted text"')
            if callee.endswith('<impl f64>::sqrt') or callee.endswith('f64::sqrt'):
                v = deref_all(args[0])
                c = zs(v.v)
                if z3.is_int_value(c) and int(round(c.as_long() ** 0.5)) ** 2 == c.as_long():
                    return FV.const(int(round(c.as_long() ** 0.5)))
                raise Inconclusive('sqrt of a non-square / symbolic value in the exact-int back end')
            if callee.endswith('<impl f64>::round') or callee.endswith('f64::round'):
                return args[0]
            return super().override(engine, st, callee, args, dest_ty)

    env = Env(ctx.prog, ctx.layout, 16)
    eng, _ = ctx.engines(env)
    holder = {}

    def body(st):
        env.assumptions.clear()
        a, b = env.sym_i('vehicle_index', 0, 12), env.sym_i('job_index', 0, 12)
        none = lambda ty: mk_option(False, ty=ty)
        ref = lambda i: EnumV('format::Location', 1, {1: [i]})
        place = env.struct('problem::model::JobPlace', location=ref(b), duration=FV.const(0), times=none('Option<Vec<Vec<String>>>'), tag=none('Option<String>'))
        task = env.struct('problem::model::JobTask', places=VecV([place]), demand=none('Option<Vec<i32>>'), order=none('Option<i32>'))
        job = env.struct('problem::model::Job', id=Opaque('"job1"'), pickups=none('Option<Vec<JobTask>>'), deliveries=none('Option<Vec<JobTask>>'),
                         replacements=none('Option<Vec<JobTask>>'), services=mk_option(True, VecV([task]), ty='Option<Vec<JobTask>>'), skills=none('Option<JobSkills>'),
                         value=none('Option<f64>'), group=none('Option<String>'), compatibility=none('Option<String>'))
        start = env.struct('problem::model::ShiftStart', earliest=Opaque('"t"'), latest=none('Option<String>'), location=ref(a))
        shift = env.struct('problem::model::VehicleShift', start=start, end=none('Option<ShiftEnd>'), breaks=none('Option<Vec<VehicleBreak>>'),
                           reloads=none('Option<Vec<VehicleReload>>'), recharges=none('Option<VehicleRecharges>'))
        vo = ctx.layout.fields('problem::model::VehicleType')
        vehicle = Agg('struct', [Opaque(f) for f in vo], 'problem::model::VehicleType')
        vehicle.fields[vo.index('shifts')] = VecV([shift])
        fleet = env.struct('problem::model::Fleet', vehicles=VecV([vehicle]), profiles=VecV([]), resources=none('Option<Vec<VehicleResource>>'))
        plan_ = env.struct('problem::model::Plan', jobs=VecV([job]), relations=none('Option<Vec<Relation>>'), clustering=none('Option<Clustering>'))
        problem = env.struct('problem::model::Problem', plan=plan_, fleet=fleet, objectives=none('Option<Vec<Objective>>'))
        index = eng.exec_fn(st, new_fn[0], [RefV(Cell(problem), 0)])
        n = size * size
        matrix = env.struct('problem::model::Matrix', profile=none('Option<String>'), timestamp=none('Option<String>'), travel_times=VecV([IV(0, 'i64')] * n),
                            distances=VecV([IV(0, 'i64')] * n), error_codes=none('Option<Vec<i64>>'))
        matrices = VecV([matrix])
        vctx = env.struct('validation::ValidationContext', problem=RefV(Cell(problem), 0), matrices=mk_option(True, RefV(Cell(matrices), 0), ty='Option<&Vec<Matrix>>'),
                          coord_index=RefV(Cell(index), 0), job_index=Opaque('job_index'))
        holder.update(a=a, b=b)
        return eng.exec_fn(st, rule, [RefV(Cell(vctx), 0)])

    paths = eng.explore(body)
    res.paths = len(paths)
    res.functions |= eng.functions_used
    saw_ok = saw_err = False
    for st, out in paths:
        if out is None:
            if not no_panic(ctx, res, env, st, what=name):
                break
            continue
        a, b = holder['a'], holder['b']
        mx = z3.If(a.t > b.t, a.t, b.t)
        count = z3.If(a.t == b.t, 1, 2)
        is_ok = zs(out.discr == 0)
        # the documentation names the rule 'amount of locations does not match matrix dimension' and words the check as 'max location index + 1
        # should be equal to matrix size': demanded here is what both readings agree on, plus that nothing outside the matrix passes
        # the documented check: 'max location index + 1 should be equal to matrix size' (for coordinate locations the index is the
        # position in the list of unique locations, so this is also 'amount of locations == matrix dimension')
        claim = z3.And(is_ok == (mx + 1 == size), z3.Implies(is_ok, mx < size))
        if not decide_claim(ctx, res, env, st, claim, what=f'{name}: E1504 passes <=> max location index + 1 == matrix size (nothing outside the matrix passes)'):
            if res.status == 'violated' and res.model is not None:
                m = res.model
                ev = lambda t: m.eval(t, model_completion=True).as_long()
                n = size * size
                job = {'id': 'job1', 'services': [{'places': [{'location': {'index': ev(b.t)}, 'duration': 0.0}]}]}
                problem = rules_problem(job, 1)
                shift = problem['fleet']['vehicles'][0]['shifts'][0]
                shift['start']['location'] = {'index': ev(a.t)}
                shift.pop('end', None)
                res.case = {'kind': 'location_index', 'problem': problem, 'matrix': {'profile': 'car', 'travelTimes': [1] * n, 'distances': [1] * n}, 'size': size,
                            'indices': [ev(a.t), ev(b.t)]}
            break
        if not no_panic(ctx, res, env, st, what=name):
            break
        saw_ok = saw_ok or witness(ctx, res, env, st, is_ok)
        saw_err = saw_err or witness(ctx, res, env, st, z3.Not(is_ok))
    if res.status == 'holds':
        res.witnesses = int(saw_ok) + int(saw_err)
        if not (saw_ok and saw_err):
            res.status, res.detail = 'inconclusive', f'vacuous: ok={saw_ok} err={saw_err}'
    res.time = time.time() - t0
    return res
