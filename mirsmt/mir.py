"""Parser for the textual MIR that `rustc -Zunpretty=mir` prints (the subset used by the claimed kernels).

The dump is re-taken from /repo's current working tree on every run (see dump_mir).  Anything this parser does not
understand is kept as an `Unsupported` node and makes the symbolic executor abort the obligation as inconclusive when
(and only when) execution reaches it - it is never skipped silently.
"""
import os
import re
import subprocess
import time

REPO = os.environ.get('VERIF_REPO', '/repo')   # override: development against a snapshot only
CACHE = os.environ.get('VERIF_MIR_CACHE', '/verif/.cache/mir')


class MirError(Exception):
    pass


# ---------------------------------------------------------------------------------------------------------------------
# AST

class Place:
    __slots__ = ('local', 'proj')

    def __init__(self, local, proj=()):
        self.local = local
        self.proj = tuple(proj)  # sequence of ('deref',) | ('field', idx, ty) | ('downcast', name, idx|None) | ('index', local) | ('constindex', i)

    def __repr__(self):
        return f'_{self.local}' + ''.join(str(p) for p in self.proj)


class Operand:
    __slots__ = ('kind', 'place', 'const')

    def __init__(self, kind, place=None, const=None):
        self.kind, self.place, self.const = kind, place, const  # kind: copy | move | const

    def __repr__(self):
        return f'{self.kind} {self.place if self.place is not None else self.const}'


class Rvalue:
    __slots__ = ('kind', 'args', 'extra')

    def __init__(self, kind, args=(), extra=None):
        self.kind, self.args, self.extra = kind, list(args), extra

    def __repr__(self):
        return f'{self.kind}({self.args}, {self.extra})'


class Stmt:
    __slots__ = ('kind', 'place', 'rvalue', 'text')

    def __init__(self, kind, place=None, rvalue=None, text=''):
        self.kind, self.place, self.rvalue, self.text = kind, place, rvalue, text


class Term:
    __slots__ = ('kind', 'data', 'text')

    def __init__(self, kind, data=None, text=''):
        self.kind, self.data, self.text = kind, data, text


class Block:
    __slots__ = ('stmts', 'term')

    def __init__(self):
        self.stmts, self.term = [], None


class Function:
    def __init__(self, name, header, line_no):
        self.name = name
        self.header = header
        self.line_no = line_no
        self.args = []        # list of (local, type)
        self.ret_ty = ''
        self.locals = {}      # local -> type
        self.blocks = {}      # idx -> Block
        self.raw = []
        self.parsed = False
        self.impl_loc = None  # (file, line) if the name contains <impl at ...>
        self.span = None
        self.prog = None      # owning Program (cross-crate execution switches engines on it)


# ---------------------------------------------------------------------------------------------------------------------
# low-level text helpers

def split_top(s, sep=','):
    """Splits on `sep` at nesting depth 0 of () [] {} <> (ignoring -> and => arrows) and outside string literals."""
    out, depth, cur, i, n = [], 0, [], 0, len(s)
    in_str = False
    while i < n:
        c = s[i]
        if in_str:
            cur.append(c)
            if c == '\\':
                cur.append(s[i + 1])
                i += 1
            elif c == '"':
                in_str = False
        elif c == '"':
            in_str = True
            cur.append(c)
        elif c in '([{':
            depth += 1
            cur.append(c)
        elif c in ')]}':
            depth -= 1
            cur.append(c)
        elif c == '<':
            depth += 1
            cur.append(c)
        elif c == '>':
            if i > 0 and s[i - 1] in '-=':
                cur.append(c)
            else:
                depth -= 1
                cur.append(c)
        elif c == sep and depth == 0:
            out.append(''.join(cur).strip())
            cur = []
        else:
            cur.append(c)
        i += 1
    tail = ''.join(cur).strip()
    if tail:
        out.append(tail)
    return out


def matching_paren(s, start):
    """Index of the parenthesis that closes the one at s[start] (only () counted, type text may hold <> and ::)."""
    depth = 0
    for i in range(start, len(s)):
        if s[i] == '(':
            depth += 1
        elif s[i] == ')':
            depth -= 1
            if depth == 0:
                return i
    raise MirError(f'unbalanced parentheses in {s!r}')


def parse_place(s):
    s = s.strip()
    place, rest = _parse_place(s)
    if rest.strip():
        raise MirError(f'trailing text after place: {s!r} -> {rest!r}')
    return place


def _parse_place(s):
    s = s.lstrip()
    if s.startswith('_'):
        m = re.match(r'_(\d+)', s)
        place = Place(int(m.group(1)))
        rest = s[m.end():]
    elif s.startswith('('):
        end = matching_paren(s, 0)
        inner = s[1:end]
        rest = s[end + 1:]
        if inner.startswith('*'):
            base, r2 = _parse_place(inner[1:])
            if r2.strip():
                raise MirError(f'bad deref place {s!r}')
            place = Place(base.local, base.proj + (('deref',),))
        else:
            base, r2 = _parse_place(inner)
            r2 = r2.strip()
            m = re.match(r'^\.(\d+): (.*)$', r2, re.S)
            if m:
                place = Place(base.local, base.proj + (('field', int(m.group(1)), m.group(2)),))
            else:
                m = re.match(r'^as (\w+)$', r2)
                if m:
                    place = Place(base.local, base.proj + (('downcast', m.group(1)),))
                else:
                    m = re.match(r'^as variant#(\d+)$', r2)
                    if m:
                        place = Place(base.local, base.proj + (('downcast', None, int(m.group(1))),))
                    else:
                        raise MirError(f'unsupported place projection: {s!r}')
    else:
        raise MirError(f'cannot parse place {s!r}')
    # postfix index projections
    while rest.startswith('['):
        end = rest.index(']')
        idx = rest[1:end]
        m = re.match(r'^_(\d+)$', idx)
        if m:
            place = Place(place.local, place.proj + (('index', int(m.group(1))),))
        else:
            m = re.match(r'^(\d+) of (\d+)$', idx)
            if m:
                place = Place(place.local, place.proj + (('constindex', int(m.group(1))),))
            else:
                raise MirError(f'unsupported index projection {rest!r}')
        rest = rest[end + 1:]
    return place, rest


def parse_operand(s):
    s = s.strip()
    for kw in ('no_retag copy ', 'copy ', 'move '):
        if s.startswith(kw):
            return Operand('move' if kw == 'move ' else 'copy', place=parse_place(s[len(kw):]))
    if s.startswith('const '):
        return Operand('const', const=s[len('const '):].strip())
    if re.match(r'^[A-Za-z_<][\w:<>, &\'\[\]]*::\w+(::<.*>)?$', s) or re.match(r'^[A-Za-z][A-Za-z0-9_]*$', s):
        # a function item passed by name (zero-sized value): `path::to::function`
        return Operand('const', const=s)
    raise MirError(f'cannot parse operand {s!r}')


BINOPS = {'Add', 'Sub', 'Mul', 'Div', 'Rem', 'Eq', 'Ne', 'Lt', 'Le', 'Gt', 'Ge', 'BitAnd', 'BitOr', 'BitXor', 'Shl', 'Shr',
          'AddWithOverflow', 'SubWithOverflow', 'MulWithOverflow', 'AddUnchecked', 'SubUnchecked', 'MulUnchecked', 'Cmp', 'Offset'}
UNOPS = {'Not', 'Neg', 'PtrMetadata'}


def parse_rvalue(s):
    s = s.strip()
    m = re.match(r'^(\w+)\((.*)\)$', s, re.S)
    if m and m.group(1) in BINOPS:
        a, b = split_top(m.group(2))
        return Rvalue('binop', [parse_operand(a), parse_operand(b)], m.group(1))
    if m and m.group(1) in UNOPS:
        return Rvalue('unop', [parse_operand(m.group(2))], m.group(1))
    if m and m.group(1) == 'discriminant':
        return Rvalue('discriminant', [parse_place(m.group(2))])
    if m and m.group(1) == 'Len':
        return Rvalue('len', [parse_place(m.group(2))])
    if m and m.group(1) == 'CopyForDeref':
        return Rvalue('use', [Operand('copy', place=parse_place(m.group(2)))])
    if s.startswith('&raw const '):
        # a raw pointer to a place: modelled as a shared reference (only its identity is ever observed: ptr::eq)
        return Rvalue('ref', [parse_place(s[len('&raw const '):].lstrip())], False)
    if s.startswith('&raw '):
        return Rvalue('unsupported', extra=s)
    if s.startswith('&'):
        body = s[1:].lstrip()
        mutable = False
        if body.startswith('mut '):
            mutable = True
            body = body[4:]
        for kw in ('fake shallow ', 'fake ', 'two_phase '):
            if body.startswith(kw):
                body = body[len(kw):]
        return Rvalue('ref', [parse_place(body)], mutable)
    if s.startswith(('copy ', 'move ', 'const ', 'no_retag copy ')):
        # possibly a cast: `copy _1 as f64 (IntToFloat)`
        mc = re.match(r'^(.*) as (.+) \((\w+(?:\([^)]*\))?)\)$', s, re.S)
        if mc:
            return Rvalue('cast', [parse_operand(mc.group(1))], (mc.group(2), mc.group(3)))
        return Rvalue('use', [parse_operand(s)])
    if s.startswith('(') and s.endswith(')'):
        inner = s[1:-1].strip()
        parts = split_top(inner) if inner else []
        return Rvalue('tuple', [parse_operand(p) for p in parts])
    if s.startswith('[') and s.endswith(']'):
        inner = s[1:-1]
        if ';' in inner and len(split_top(inner, ';')) == 2:
            a, n = split_top(inner, ';')
            return Rvalue('repeat', [parse_operand(a)], n)
        return Rvalue('array', [parse_operand(p) for p in split_top(inner)])
    if s.startswith('{closure@') or s.startswith('{coroutine@'):
        m2 = re.match(r'^(\{closure@[^}]*\})(?:\s*\{(.*)\})?$', s, re.S)
        if m2:
            fields = []
            if m2.group(2) and m2.group(2).strip():
                for part in split_top(m2.group(2)):
                    name, val = part.split(':', 1)
                    fields.append(parse_operand(val))
            return Rvalue('closure', fields, m2.group(1))
    # struct / enum aggregate: Path { f: op, .. } | Path(op, ..) | Path
    m3 = re.match(r'^([\w:<>, &\'\[\];\(\)\{\}@/\.\-#]+?)\s*\{(.*)\}$', s, re.S)
    if m3 and not s.startswith('{'):
        fields = []
        body = m3.group(2).strip()
        if body:
            for part in split_top(body):
                name, val = part.split(':', 1)
                fields.append((name.strip(), parse_operand(val)))
        return Rvalue('adt_named', [f[1] for f in fields], (m3.group(1).strip(), [f[0] for f in fields]))
    if s.endswith(')') and not s.startswith('('):
        # tuple-like ADT constructor `Path::<generics>::Variant(op, ..)`: the argument list is the LAST balanced (...) group
        depth, open_idx = 0, None
        for i in range(len(s) - 1, -1, -1):
            if s[i] == ')':
                depth += 1
            elif s[i] == '(':
                depth -= 1
                if depth == 0:
                    open_idx = i
                    break
        if open_idx:
            inner = s[open_idx + 1:-1].strip()
            parts = split_top(inner) if inner else []
            try:
                return Rvalue('adt_tuple', [parse_operand(p) for p in parts], s[:open_idx].strip())
            except MirError:
                return Rvalue('unsupported', extra=s)
    if re.match(r'^[\w:<>, &\'\[\];\(\)]+$', s) and not s.endswith(')'):
        return Rvalue('adt_tuple', [], s)   # unit-like variant / struct, e.g. `Option::<T>::None`
    return Rvalue('unsupported', extra=s)


def parse_targets(s):
    """`[0: bb1, 1: bb2, otherwise: bb3]` / `[return: bb1, unwind continue]` -> dict"""
    s = s.strip()
    assert s.startswith('[') and s.endswith(']'), s
    out = {}
    for part in split_top(s[1:-1]):
        if ':' in part:
            k, v = part.split(':', 1)
            m = re.match(r'\s*bb(\d+)', v)
            out[k.strip()] = int(m.group(1)) if m else v.strip()
        else:
            out[part.strip()] = None
    return out


def parse_terminator(s):
    s = s.strip().rstrip(';')
    if s == 'return':
        return Term('return', text=s)
    if s == 'unreachable':
        return Term('unreachable', text=s)
    if s in ('resume', 'unwind resume', 'abort') or s.startswith('unwind '):
        return Term('resume', text=s)
    m = re.match(r'^goto -> bb(\d+)$', s)
    if m:
        return Term('goto', int(m.group(1)), s)
    m = re.match(r'^(?:falseEdge|falseUnwind) -> \[real: bb(\d+),.*\]$', s)
    if m:
        return Term('goto', int(m.group(1)), s)
    m = re.match(r'^switchInt\((.*)\) -> (\[.*\])$', s, re.S)
    if m:
        return Term('switch', (parse_operand(m.group(1)), parse_targets(m.group(2))), s)
    m = re.match(r'^drop\((.*)\) -> (\[.*\])$', s, re.S)
    if m:
        return Term('drop', (parse_place(m.group(1)), parse_targets(m.group(2))), s)
    m = re.match(r'^assert\((.*)\) -> (\[.*\])$', s, re.S)
    if m:
        parts = split_top(m.group(1))
        cond = parts[0]
        expected = True
        if cond.startswith('!'):
            expected = False
            cond = cond[1:]
        return Term('assert', (parse_operand(cond), expected, parts[1] if len(parts) > 1 else '', parse_targets(m.group(2))), s)
    # call: PLACE = CALLEE(ARGS) -> [return: bbN, unwind ...]
    m = re.match(r'^(.*?) = (.*) -> (\[.*\])$', s, re.S)
    if m:
        dest, call, targets = m.group(1), m.group(2).strip(), m.group(3)
        if not call.endswith(')'):
            return Term('unsupported', text=s)
        # find the opening parenthesis that matches the final ')'
        depth = 0
        open_idx = None
        for i in range(len(call) - 1, -1, -1):
            if call[i] == ')':
                depth += 1
            elif call[i] == '(':
                depth -= 1
                if depth == 0:
                    open_idx = i
                    break
        callee = call[:open_idx].strip()
        argtext = call[open_idx + 1:-1].strip()
        try:
            args = [parse_operand(a) for a in split_top(argtext)] if argtext else []
            return Term('call', (parse_place(dest), callee, args, parse_targets(targets)), s)
        except MirError:
            return Term('unsupported', text=s)
    # diverging call without destination target: `_x = panic(...) -> unwind continue`
    m = re.match(r'^(.*?) = (.*) -> unwind \w+$', s, re.S) or re.match(r'^(.*?) = (.*\)) -> bb\d+$', s, re.S)
    if m:
        # `-> bbN` without `return:` = the call never returns; bbN is the unwind (cleanup) target
        return Term('diverge', m.group(2), s)
    return Term('unsupported', text=s)


def parse_statement(s):
    s = s.strip().rstrip(';')
    if s == 'nop' or s.startswith(('StorageLive', 'StorageDead', 'FakeRead', 'PlaceMention', 'AscribeUserType', 'Retag', 'Coverage',
                                   'ConstEvalCounter', 'BackwardIncompatibleDropHint')):
        return Stmt('nop', text=s)
    m = re.match(r'^discriminant\((.*)\) = (\d+)$', s)
    if m:
        return Stmt('setdiscr', parse_place(m.group(1)), int(m.group(2)), s)
    m = re.match(r'^Deinit\((.*)\)$', s)
    if m:
        return Stmt('nop', text=s)
    # assignment; split at the first ' = ' at depth 0
    depth = 0
    for i, c in enumerate(s):
        if c in '([{':
            depth += 1
        elif c in ')]}':
            depth -= 1
        elif depth == 0 and s.startswith(' = ', i):
            lhs, rhs = s[:i], s[i + 3:]
            try:
                return Stmt('assign', parse_place(lhs), parse_rvalue(rhs), s)
            except MirError as e:
                return Stmt('unsupported', text=f'{s}  [{e}]')
    return Stmt('unsupported', text=s)


# ---------------------------------------------------------------------------------------------------------------------

class Program:
    """All function bodies of one crate dump, parsed lazily."""

    def __init__(self, crate, text, src_root):
        self.crate = crate
        self.src_root = src_root      # /repo/<crate>
        self.functions = {}           # name -> Function (first definition wins; duplicates kept in self.dups)
        self.by_last = {}             # last path segment (method name) -> [Function]
        self.promoted = {}            # '<fn name>::promoted[N]' -> Function (constant body)
        self._scan(text)
        self._impl_headers = {}
        self._ref_impls = {}

    def _scan(self, text):
        lines = text.split('\n')
        i, n = 0, len(lines)
        self.literal_consts = {}
        for line in lines:
            ml = re.match(r'^const ([\w:{}#]+): ([^=]+) = const (.*);$', line)
            if ml:
                self.literal_consts.setdefault(ml.group(1), []).append(ml.group(3))
        while i < n:
            line = lines[i]
            if (line.startswith('const ') or line.startswith('static ')) and line.rstrip().endswith(';'):
                i += 1          # one-line item (`const NAME: T = const V;`): it has no body that a following function could be mistaken for
                continue
            if line.startswith('fn ') or line.startswith('const ') or line.startswith('static ') or line.startswith('promoted['):
                start = i
                # body ends at the first line that is exactly '}'
                j = i + 1
                while j < n and lines[j] != '}':
                    j += 1
                mconst = re.match(r'^const (.*::promoted\[\d+\]): (.*) = \{$', line) or re.match(r'^const ([\w:<>{}#@ /\.\-]+): ([^=]+) = \{$', line)
                if mconst:
                    pf = Function(mconst.group(1), 'fn ' + mconst.group(1) + '() -> ' + mconst.group(2) + ' {', start + 1)
                    pf.raw = ['fn ' + mconst.group(1) + '() -> ' + mconst.group(2) + ' {'] + lines[start + 1:j + 1]
                    pf.prog = self
                    self.promoted[mconst.group(1)] = pf
                if line.startswith('fn '):
                    header = line
                    name = self._fn_name(header)
                    f = Function(name, header, start + 1)
                    f.raw = lines[start:j + 1]
                    f.prog = self
                    m = re.search(r'<impl at ([^:>]+):(\d+):\d+: (\d+):\d+>', name)
                    if m:
                        f.impl_loc = (m.group(1), int(m.group(2)))
                    if name not in self.functions:
                        self.functions[name] = f
                    last = re.sub(r'::\{closure#\d+\}', '', name).split('::')[-1]
                    self.by_last.setdefault(last, []).append(f)
                i = j + 1
            else:
                i += 1

    @staticmethod
    def _fn_name(header):
        # `fn NAME(args) -> ret {` ; NAME may contain <impl at path:l:c: l:c> and {closure#N}
        s = header[3:]
        depth = 0
        for i, c in enumerate(s):
            if c == '<':
                depth += 1
            elif c == '>' and not (i > 0 and s[i - 1] in '-='):
                depth -= 1
            elif c == '(' and depth == 0:
                return s[:i].strip()
        raise MirError(f'cannot parse fn header: {header}')

    # ---- impl header lookup (resolves `Type::method` / `<Type as Trait>::method` call sites to `<impl at ..>` definitions)
    def impl_header(self, f):
        if f.impl_loc is None:
            return None
        if f.impl_loc in self._impl_headers:
            return self._impl_headers[f.impl_loc]
        path, line = f.impl_loc
        full = os.path.join(REPO, path)
        res = None
        try:
            src = open(full).read().split('\n')
            text = ' '.join(l.strip() for l in src[line - 1:line + 6])
            # generic parameters may nest (`impl<T: Add<Output = T>> ...`): skip them bracket-balanced before matching the rest
            m0 = re.match(r'^(?:unsafe\s+)?impl\s*<', text)
            if m0:
                depth, j = 0, m0.end() - 1
                while j < len(text):
                    if text[j] == '<':
                        depth += 1
                    elif text[j] == '>' and text[j - 1] not in '-=':
                        depth -= 1
                        if depth == 0:
                            break
                    j += 1
                text = 'impl ' + text[j + 1:].lstrip()
            m = re.match(r'^(?:unsafe\s+)?impl\s*(<.*?>)?\s*(.*?)\s*(?:where\b.*)?\{', text)
            if not m:
                # derive attribute: `#[derive(Clone, ...)]` -> the item follows
                m2 = re.search(r'(?:struct|enum)\s+(\w+)', ' '.join(l.strip() for l in src[line - 1:line + 12]))
                res = ('derive', m2.group(1) if m2 else None)
            else:
                body = m.group(2)
                if ' for ' in body:
                    trait, ty = body.split(' for ', 1)
                    res = (self._base(trait), self._base(ty))
                    self._ref_impls[f.impl_loc] = ty.strip().startswith('&')
                else:
                    res = (None, self._base(body))
        except OSError:
            res = None
        self._impl_headers[f.impl_loc] = res
        return res

    @staticmethod
    def _base(ty):
        ty = ty.strip()
        ty = re.sub(r"^&('\w+\s+)?(mut\s+)?", '', ty)
        ty = re.sub(r'<.*$', '', ty)
        return ty.split('::')[-1].strip()

    def find_method(self, type_name, method, trait=None, is_ref=None):
        """Definitions of `method` in an `impl [Trait for] type_name` block (base names, generics stripped); `is_ref`
        selects between `impl Trait for T` and `impl Trait for &T` when both exist."""
        out = []
        for f in self.by_last.get(method, []):
            if '{closure#' in f.name or f.impl_loc is None:
                continue
            h = self.impl_header(f)
            if not h or h[0] == 'derive':
                continue
            if h[1] == type_name and (h[0] == trait if trait is not None else True):
                out.append(f)
        if is_ref is not None and len(out) > 1:
            sel = [f for f in out if self._ref_impls.get(f.impl_loc, False) == is_ref]
            if sel:
                out = sel
        return out

    def find_free(self, suffix):
        """Free function by exact trimmed name or unique `::`-suffix."""
        if suffix in self.functions:
            return self.functions[suffix]
        cands = [f for name, f in self.functions.items() if name.endswith('::' + suffix)]
        if len(cands) == 1:
            return cands[0]
        if not cands:
            raise MirError(f'function {suffix} not found in the MIR of {self.crate}')
        raise MirError(f'function name {suffix} is ambiguous in the MIR of {self.crate}: {[c.name for c in cands][:5]}')

    def closure_of(self, f, idx):
        name = f'{f.name}::{{closure#{idx}}}'
        if name not in self.functions:
            raise MirError(f'closure {name} not found')
        return self.functions[name]

    def parse(self, f):
        if f.parsed:
            return f
        header = f.header
        # arguments
        open_idx = header.index('(', len('fn ' + f.name))
        close_idx = matching_paren(header, open_idx)
        argtext = header[open_idx + 1:close_idx]
        f.args = []
        for part in split_top(argtext):
            m = re.match(r'^_(\d+): (.*)$', part, re.S)
            if m:
                f.args.append((int(m.group(1)), m.group(2)))
        m = re.search(r'\) -> (.*) \{$', header)
        f.ret_ty = m.group(1) if m else '()'
        cur = None
        for line in f.raw[1:]:
            s = line.strip()
            if not s or s == '}':
                continue
            m = re.match(r'^let (?:mut )?_(\d+): (.*);$', s)
            if m:
                f.locals[int(m.group(1))] = m.group(2)
                continue
            if s.startswith('debug ') or s.startswith('scope ') or s == '{':
                continue
            m = re.match(r'^bb(\d+)(?: \(cleanup\))?: \{$', s)
            if m:
                cur = Block()
                f.blocks[int(m.group(1))] = cur
                continue
            if cur is None:
                continue
            if s.endswith(';'):
                body = s[:-1]
                is_term = (body in ('return', 'unreachable', 'resume', 'abort') or body.startswith(('goto ', 'switchInt(', 'drop(', 'assert(', 'falseEdge', 'falseUnwind', 'unwind '))
                           or ' -> [' in body or re.search(r' -> unwind \w+$', body) or re.search(r'\) -> bb\d+$', body))
                if is_term:
                    cur.term = parse_terminator(body)
                else:
                    cur.stmts.append(parse_statement(body))
        for a, ty in f.args:
            f.locals[a] = ty
        f.locals[0] = f.ret_ty
        f.parsed = True
        return f


_PROGRAMS = {}


def dump_mir(crate, force=False):
    """Runs rustc -Zunpretty=mir for `crate` on /repo's current working tree (dev profile semantics, overflow checks on)."""
    os.makedirs(CACHE, exist_ok=True)
    out = os.path.join(CACHE, f'{crate}.mir')
    env = dict(os.environ)
    env['CARGO_NET_OFFLINE'] = 'true'
    env.pop('RUSTFLAGS', None)
    lib = os.path.join(REPO, crate, 'src', 'lib.rs')
    t0 = time.time()
    os.utime(lib, None)  # force re-emit: an unchanged crate would print nothing
    cmd = ['cargo', '+nightly', 'rustc', '--offline', '--lib', '--target-dir', os.path.join(CACHE, 'target'), '--',
           '-Zunpretty=mir', '-C', 'debug-assertions=off', '-C', 'overflow-checks=on']
    p = subprocess.run(cmd, cwd=os.path.join(REPO, crate), env=env, capture_output=True, text=True, timeout=1800)
    if p.returncode != 0 or not p.stdout.strip():
        raise MirError(f'MIR dump of {crate} failed (rc={p.returncode}): {p.stderr[-1500:]}')
    with open(out, 'w') as f:
        f.write(p.stdout)
    return out, time.time() - t0


def load(crate, fresh=True):
    key = crate
    if key in _PROGRAMS:
        return _PROGRAMS[key]
    path = os.path.join(CACHE, f'{crate}.mir')
    if fresh or not os.path.exists(path):
        path, _ = dump_mir(crate)
    prog = Program(crate, open(path).read(), os.path.join(REPO, crate))
    _PROGRAMS[key] = prog
    return prog
